#!/bin/bash
# usage: tools/seedcheck.sh <PROP> <patch file> <demo file> [worktree]
# Confirms an independently written breaking change in a scratch worktree of /repo (never in /repo itself):
#   clean: demo passes;  patched: demo fails, baseline tests pass, the property's quick check reports a VIOLATION.
P=$1; PATCH=$2; DEMO=$3; WT=${4:-}
set -u
if [[ -z "$WT" || ! -d "$WT" ]]; then
  # a scratch worktree of /repo outside /repo and /verif, removed when done
  WT=$(mktemp -d /tmp/pbseedcheck.XXXXXX)
  git -C /repo worktree add --detach "$WT" HEAD -q || exit 2
  trap 'git -C /repo worktree remove --force "$WT" >/dev/null 2>&1; rm -rf "$WT"' EXIT
fi
cd "$WT" || exit 2
git checkout -q -- . ; git status --short | grep -v '^??' && { echo "worktree not clean"; exit 2; }
echo "== clean: demo"; (cd "$WT" && timeout 600 /venv/bin/python "$DEMO" >/tmp/seed_demo_clean.txt 2>&1; echo "exit $?")
git apply "$PATCH" 2>/dev/null || git apply --3way "$PATCH" >/dev/null 2>&1 || { echo "patch does not apply"; exit 2; }
echo "== patched: demo"; (cd "$WT" && timeout 600 /venv/bin/python "$DEMO" >/tmp/seed_demo_patched.txt 2>&1; echo "exit $?")
echo "== patched: baseline tests"; (cd "$WT" && timeout 1200 /venv/bin/python -m pytest tests -q -p no:cacheprovider -n 8 --timeout=900 2>&1 | tail -1)
echo "== patched: ./check $P --tier quick"
(cd /verif && PBSIM_REPO="$WT" timeout 1800 ./check "$P" --tier quick --evidence-dir /tmp/seed_ev 2>&1 | grep -E "^VIOLATION|signature:|detail:|^runs=|KNOWN-FINDING|HARNESS" | cut -c1-330 | head -14)
git checkout -q -- . ; rm -rf /tmp/seed_ev
