#!/bin/bash
# usage: tools/keepseed.sh <seed id> <PROP> <patch> <demo> "<needs>" "<ran / result>"
ID=$1; P=$2; PATCH=$3; DEMO=$4; NEEDS=$5; RAN=$6
D=/verif/seeded/$ID; mkdir -p $D; cp "$PATCH" $D/patch.diff; cp "$DEMO" $D/demo.py
/venv/bin/python - "$ID" "$P" "$NEEDS" "$RAN" <<'PY'
import json,sys
i,p,needs,ran=sys.argv[1:5]
json.dump({"id":i,"breaks_property":p,"needs_to_manifest":needs,"author":"independent sub-agent given only the property text and a scratch worktree",
 "confirmed":ran},open(f"/verif/seeded/{i}/meta.json","w"),indent=1)
PY
