#!/bin/bash
# Regression over every kept breaking change: apply each seeded/<id>/patch.diff in ONE scratch worktree of /repo (outside
# /repo and /verif, removed at the end), run the owning check's quick tier against it, report DETECTED / not.
# usage: tools/reseed_all.sh [id-substring]
set -u
V=$(cd "$(dirname "$0")/.." && pwd)
WT=$(mktemp -d /tmp/pbseed.XXXXXX)
git -C /repo worktree add --detach "$WT" HEAD -q || exit 2
trap 'git -C /repo worktree remove --force "$WT" >/dev/null 2>&1; rm -rf "$WT"' EXIT
ok=0; bad=0
for d in "$V"/seeded/*/; do
  id=$(basename "$d"); [[ -n "${1:-}" && "$id" != *"$1"* ]] && continue
  P=$(/venv/bin/python -c "import json,sys; m=json.load(open('$d/meta.json')); print(m.get('detected_by') or m['breaks_property'])")
  expect=DETECTED; grep -q "NOT DETECTED" "$d/meta.json" && expect=NOT-DETECTED
  git -C "$WT" checkout -q -- . ; git -C "$WT" reset -q --hard HEAD; git -C "$WT" apply "$d/patch.diff" 2>/dev/null || git -C "$WT" apply --3way "$d/patch.diff" >/dev/null 2>&1 || { echo "$id: patch does not apply to the current tree (even 3-way)"; bad=$((bad+1)); continue; }
  out=$(cd "$V" && PBSIM_REPO="$WT" timeout 2400 ./check "$P" --tier quick --evidence-dir "$WT/.ev" 2>&1)
  if echo "$out" | grep -q "^VIOLATION property=$P"; then got=DETECTED; else got=NOT-DETECTED; fi
  sig=$(echo "$out" | grep -m1 "signature:" | cut -c1-140)
  if [[ "$got" == "$expect" ]]; then ok=$((ok+1)); echo "ok   $id ($P): $got $sig"; else bad=$((bad+1)); echo "DIFF $id ($P): expected $expect, got $got"; echo "$out" | tail -3; fi
done
echo "reseed: $ok as recorded, $bad differ"
[[ $bad -eq 0 ]]
