"""World specs (plain JSON) and construction of library objects from them.

A *spec* never contains library objects.  `Builder` turns specs into objects either with sharing (simulation:
one object per spec id, shared quantity instances, the step seam in every atmosphere) or without (solo oracle:
everything fresh, plain Atmo)."""
from pbsim import lib


def Q(spec):
    """[value, 'UnitName'] -> quantity (a fresh instance every time)."""
    if spec is None:
        return None
    v, u = spec
    return getattr(lib.pb.Unit, u)(v)


class Builder:
    """Builds library objects from a world spec.

    shared=True  : object per id cached (aliasing as the spec's references imply), quantities given as
                   {"ref": k} resolve to ONE shared instance from world["qpool"], atmospheres carry the step seam.
    shared=False : nothing cached across build_* calls made through a fresh Builder; qpool refs become fresh
                   instances; plain Atmo/Vacuum unless seam=True.
    overrides    : {"weapon_zero": {wid: hex radians}, "ammo_tm": {aid: hex float}} model state applied after
                   construction (solo oracle)."""

    def __init__(self, world, shared=True, seam=True, overrides=None, calc_cfg=None):
        self.w = world
        self.shared = shared          # alias {"ref": k} quantities to one instance
        self.calc_cfg = calc_cfg      # solo oracle: {cid: fully explicit configuration} replaces the spec's subset
        self.seam = seam
        self.ov = overrides or {}
        self.cache = {}
        self.qcache = {}

    # -- quantities -----------------------------------------------------------------------------------------
    def q(self, spec):
        if isinstance(spec, dict):
            k = spec["ref"]
            if self.shared:
                if k not in self.qcache:
                    self.qcache[k] = Q(self.w["qpool"][k])
                return self.qcache[k]
            return Q(self.w["qpool"][k])
        return Q(spec)

    def _get(self, kind, i, make):
        key = (kind, i)
        if key in self.cache:
            return self.cache[key]
        obj = make(self.w[kind][i])
        self.cache[key] = obj
        return obj

    # -- tables / drag models -------------------------------------------------------------------------------
    def table(self, i):
        def make(s):
            if s["kind"] == "shipped":
                return getattr(lib.pb, s["name"])          # the module-level list itself (as a user would pass it)
            if s["kind"] == "derived":
                src = getattr(lib.pb, s["name"])[s["offset"]::s["stride"]]
                return [{"Mach": p["Mach"] * s["mach_scale"], "CD": p["CD"] * s["cd_scale"]} for p in src]
            return [{"Mach": m, "CD": c} for m, c in s["points"]]
        return self._get("tables", i, make)

    def dm(self, i):
        def make(s):
            kw = {}
            for f in ("weight", "diameter", "length"):
                if s.get(f) is not None:
                    kw[f] = self.q(s[f])
            if "mbc" in s:
                pts = [self.bcpoint(p) for p in s["mbc"]]
                return lib.pb.DragModelMultiBC(pts, self.table(s["table"]), **kw)
            return lib.pb.DragModel(s["bc"], self.table(s["table"]), **kw)
        return self._get("dms", i, make)

    def bcpoint(self, p):
        bc, how, val = p
        if how == "Mach":
            return lib.pb.BCPoint(bc, Mach=val)
        if how == "V":                       # val is a quantity spec or a bare number
            return lib.pb.BCPoint(bc, V=self.q(val))
        return lib.pb.BCPoint(bc, V=getattr(lib.pb.Unit, how)(val))

    def ammo(self, i):
        def make(s):
            a = lib.pb.Ammo(self.dm(s["dm"]), self.q(s["mv"]), self.q(s.get("powder_temp")),
                            s.get("temp_modifier", 0), s.get("use_ps", False))
            tm = self.ov.get("ammo_tm", {}).get(str(i))
            if tm is not None:
                a.temp_modifier = float.fromhex(tm)
            return a
        return self._get("ammos", i, make)

    def weapon(self, i):
        def make(s):
            w = lib.pb.Weapon(self.q(s.get("sight_height")), self.q(s.get("twist")), self.q(s.get("zero")))
            z = self.ov.get("weapon_zero", {}).get(str(i))
            if z is not None:
                w.zero_elevation = lib.pb.Angular.Radian(float.fromhex(z))
            return w
        return self._get("weapons", i, make)

    def atmo(self, i):
        def make(s):
            A = lib.SimAtmo if self.seam else lib.pb.Atmo
            V = lib.SimVacuum if self.seam else lib.pb.Vacuum
            if s["kind"] == "icao":
                if not self.seam:
                    return lib.pb.Atmo.icao(self.q(s["altitude"]))
                # Atmo.icao builds a plain Atmo; rebuild the same values through the seam class
                std = lib.pb.Atmo.icao(self.q(s["altitude"]))
                return A(std.altitude, std.pressure, std.temperature, std.humidity)
            if s["kind"] == "vacuum":
                return V(self.q(s.get("altitude")), self.q(s.get("temperature")))
            return A(self.q(s.get("altitude")), self.q(s.get("pressure")), self.q(s.get("temperature")),
                     s.get("humidity", 0.0), self.q(s.get("powder_t")))
        return self._get("atmos", i, make)

    def wind(self, i):
        def make(s):
            kw = {"max_distance_feet": s["max_distance_feet"]} if s.get("max_distance_feet") is not None else {}
            return lib.pb.Wind(self.q(s.get("velocity")), self.q(s.get("direction")), self.q(s.get("until")), **kw)
        return self._get("winds", i, make)

    def windlist(self, i):
        def make(s):
            return [self.wind(k) for k in s]
        return self._get("windlists", i, make)

    def shot(self, i):
        def make(s):
            wl = self.windlist(s["winds"]) if s.get("winds") is not None else None
            return lib.pb.Shot(self.weapon(s["weapon"]), self.ammo(s["ammo"]),
                               self.q(s.get("look")), self.q(s.get("relative")), self.q(s.get("cant")),
                               self.atmo(s["atmo"]) if s.get("atmo") is not None else None, wl)
        return self._get("shots", i, make)

    def calc(self, i):
        def make(s):
            cfg = s.get("config")
            if self.calc_cfg is not None and str(i) in self.calc_cfg:
                cfg = self.calc_cfg[str(i)]
            return lib.pb.Calculator(_config=dict(cfg)) if cfg is not None else lib.pb.Calculator()
        return self._get("calcs", i, make)

    def sight(self, i):
        def make(s):
            return lib.pb.Sight(s["fp"], self.q(s.get("scale")), self.q(s["h"]), self.q(s["v"]))
        return self._get("sights", i, make)

    def apply_edits(self, edits):
        """user-level edits of object fields (legal: the objects are plain mutable dataclasses), in history order:
        [kind, index, field, value] with value a quantity spec or a plain number; field 'CD@k' edits a table point"""
        for kind, i, field, value in edits or []:
            obj = getattr(self, kind[:-1])(i)
            val = self.q(value) if isinstance(value, (list, dict)) else value
            if field.startswith("CD@"):
                obj.drag_table[int(field[3:]) % len(obj.drag_table)].CD = val
            else:
                setattr(obj, field, val)

    def build_all(self):
        for kind, fn in (("tables", self.table), ("dms", self.dm), ("ammos", self.ammo), ("weapons", self.weapon),
                         ("atmos", self.atmo), ("winds", self.wind), ("windlists", self.windlist),
                         ("shots", self.shot), ("calcs", self.calc), ("sights", self.sight)):
            for i in range(len(self.w.get(kind, []))):
                fn(i)
        return self


def empty_world():
    return {"qpool": [], "tables": [], "dms": [], "ammos": [], "weapons": [], "atmos": [], "winds": [],
            "windlists": [], "shots": [], "calcs": [], "sights": []}
