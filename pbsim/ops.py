"""Operation vocabulary: every simulated operation is a JSON dict performed through the public API.

`perform(op, ctx)` runs the library call(s) and returns the raw result (or raises whatever the library raises);
`outcome(...)` turns it into a bit-exact digest.  The same code path serves the simulation (shared objects) and the
solo oracle (fresh objects) - only the context differs."""
import logging
import warnings

from pbsim import lib
from pbsim.digest import dexc, dvalue, snap
from pbsim.world import Builder, Q

ADMIN_OPS = {"set_units", "assign_unit", "defaults", "preset", "gstep", "reset_globals", "basic_config", "set_debug",
             "log_sink", "warn_filter"}


class Ctx:
    """Execution context of one task (simulation) or one solo operation (oracle)."""

    def __init__(self, builder, results=None):
        self.b = builder
        self.results = results if results is not None else {}
        self.hits = {}
        self.kept = {}        # result OBJECTS the caller keeps (returned angles, hit results, danger spaces) by op index

    def arg(self, spec):
        """[v, unit] -> quantity; {"bare": x, "slot": s} -> x (bare number); {"ref": k} -> shared instance; None"""
        if isinstance(spec, dict) and "bare" in spec:
            return spec["bare"]
        return self.b.q(spec)


class _FailingHandler(logging.Handler):
    """a log sink on a full disk"""

    def emit(self, record):
        try:
            raise OSError(28, "No space left on device")
        except OSError:
            self.handleError(record)      # what every stdlib handler does with an I/O error


class _NullHandler(logging.Handler):
    def emit(self, record):
        pass


_sinks = {}


def perform(op, ctx):
    res = _perform(op, ctx)
    if op.get("op") in ("fire", "zero", "elev", "danger", "at_dist", "fire_tmp") and op.get("_idx") is not None:
        ctx.kept[op["_idx"]] = res
    return res


def _clone(obj, how):
    """the caller works with a COPY of an object it holds (copy / deepcopy / a pickle round trip, as when work is handed
    to another process): a copy is the same arguments, so the computation must give the same result"""
    import copy
    import pickle
    if how == "copy":
        return copy.copy(obj)
    if how == "deepcopy":
        return copy.deepcopy(obj)
    return pickle.loads(pickle.dumps(obj))


def _perform(op, ctx):
    pb = lib.pb
    k = op["op"]
    b = ctx.b
    if op.get("clone") and k in ("fire", "elev"):
        cl = op["clone"]
        calc, shot = b.calc(op["calc"]), b.shot(op["shot"])
        if cl["what"] in ("calc", "both"):
            calc = _clone(calc, cl["how"])
        if cl["what"] in ("shot", "both"):
            shot = _clone(shot, cl["how"])
        if k == "elev":
            return calc.barrel_elevation_for_target(shot, ctx.arg(op["dist"]))
        kw = {}
        if op.get("step") is not None:
            kw["trajectory_step"] = ctx.arg(op["step"])
        if op.get("extra"):
            kw["extra_data"] = True
        if op.get("time_step"):
            kw["time_step"] = op["time_step"]
        hit = calc.fire(shot, ctx.arg(op["range"]), **kw)
        ctx.hits[op.get("_idx")] = hit
        return hit
    if k == "fire":
        kw = {}
        if op.get("step") is not None:
            kw["trajectory_step"] = ctx.arg(op["step"])
        if op.get("extra"):
            kw["extra_data"] = True
        if op.get("time_step"):
            kw["time_step"] = op["time_step"]
        hit = b.calc(op["calc"]).fire(b.shot(op["shot"]), ctx.arg(op["range"]), **kw)
        ctx.hits[op.get("_idx")] = hit
        return hit
    if k == "reread":
        # the caller looks again at a result object it was given earlier: it must still say what it said then
        obj = ctx.kept.get(op["src"])
        return obj if obj is not None else "<nothing kept: the operation it refers to did not complete>"
    if k == "retag":
        # the caller converts the DISPLAY unit of a quantity held by a pool object (q << unit): legal at any time, on
        # shared objects too - display units are free and must not influence any result
        obj = getattr(b, op["kind"][:-1])(op["index"])
        q = getattr(obj, op["field"])
        q << getattr(pb.Unit, op["unit"])
        return None
    if k == "edit":
        b.apply_edits([[op["kind"], op["index"], op["field"], op["value"]]])
        return None
    if k == "fire_tmp":
        # a shot built from scratch for this one computation and dropped afterwards, on the task's long-used calculator
        mb = Builder(op["world"], shared=True, seam=b.seam)
        kw = {"trajectory_step": mb.q(op["step"])} if op.get("step") is not None else {}
        return b.calc(op["calc"]).fire(mb.shot(0), mb.q(op["range"]), **kw)
    if k == "zero":
        return b.calc(op["calc"]).set_weapon_zero(b.shot(op["shot"]), ctx.arg(op["dist"]))
    if k == "elev":
        return b.calc(op["calc"]).barrel_elevation_for_target(b.shot(op["shot"]), ctx.arg(op["dist"]))
    if k == "danger":
        hit = ctx.hits.get(op["fire"])
        if hit is None:
            return "<no hit result: the fire it refers to did not complete>"
        look = ctx.arg(op.get("look"))
        return hit.danger_space(ctx.arg(op["at"]), ctx.arg(op["height"]), look)
    if k == "at_dist":
        hit = ctx.hits.get(op["fire"])
        if hit is None:
            return "<no hit result: the fire it refers to did not complete>"
        d = ctx.arg(op["d"])
        return [hit.index_at_distance(d), hit.get_at_distance(d)]
    if k == "new_calc":
        return snap_calc(b.calc(op["calc"]))
    if k == "mk":
        w = op["world"]
        mb = Builder(w, shared=True, seam=b.seam)
        # arguments of the inline world may be bare numbers too
        mb.q = lambda spec, _q=mb.q: (spec["bare"] if isinstance(spec, dict) and "bare" in spec else _q(spec))
        return getattr(mb, op["what"])(0)
    if k == "powder":
        return b.ammo(op["ammo"]).calc_powder_sens(ctx.arg(op["v"]), ctx.arg(op["t"]))
    if k == "vel_for_temp":
        return b.ammo(op["ammo"]).get_velocity_for_temp(ctx.arg(op["t"]))
    if k == "sight_adj":
        s = pb.Sight(op["fp"], ctx.arg(op.get("scale")), ctx.arg(op["h"]), ctx.arg(op["v"]))
        return s.get_adjustment(ctx.arg(op["dist"]), ctx.arg(op["drop"]), ctx.arg(op["wind"]), op["mag"])
    if k == "get_gstep":
        return pb.get_global_max_calc_step_size()
    # ---------------------------------------------------------------- admin (legal global mutations)
    if k == "set_units":
        kw = {}
        for slot, (how, name) in sorted(op["slots"].items()):
            kw[slot] = getattr(pb.Unit, name) if how == "enum" else name
        return pb.PreferredUnits.set(**kw)
    if k == "assign_unit":
        setattr(pb.PreferredUnits, op["slot"], getattr(pb.Unit, op["unit"]))
        return None
    if k == "defaults":
        return pb.PreferredUnits.defaults()
    if k == "preset":
        return {"metric": pb.loadMetricUnits, "imperial": pb.loadImperialUnits, "mixed": pb.loadMixedUnits}[op["which"]]()
    if k == "gstep":
        pb.set_global_max_calc_step_size(ctx.arg(op["value"]))
        return pb.get_global_max_calc_step_size()      # the resulting setting is the operation's observable result
    if k == "reset_globals":
        return pb.reset_globals()
    if k == "basic_config":
        kw = {}
        if op.get("units"):
            kw["preferred_units"] = {s: getattr(pb.Unit, u) for s, u in sorted(op["units"].items())}
        if op.get("step") is not None:
            kw["max_calc_step_size"] = ctx.arg(op["step"])
        pb.basicConfig(**kw)
        # with a step given, the resulting global step is the observable result (float-or-quantity parameter)
        return pb.get_global_max_calc_step_size() if op.get("step") is not None else None
    if k == "set_debug":
        return pb.set_debug(bool(op["value"]))
    if k == "log_sink":
        name = op.get("name", "s")
        if op["action"] == "attach":
            h = _FailingHandler() if op.get("failing") else _NullHandler()
            h.setLevel(logging.DEBUG)
            _sinks[name] = h
            pb.logger.addHandler(h)
        else:
            h = _sinks.pop(name, None)
            if h is not None:
                pb.logger.removeHandler(h)
        return None
    if k == "warn_filter":
        if op["action"] == "reset":
            warnings.resetwarnings()
        else:
            warnings.simplefilter(op["action"])
        return None
    raise ValueError("unknown op " + k)


def snap_calc(calc):
    c = getattr(getattr(calc, "_calc", None), "_config", None)
    d = c._asdict() if hasattr(c, "_asdict") else c
    if isinstance(d, dict):     # settings are numbers: -15000 and -15000.0 are the same setting
        d = {k: (float(v) if isinstance(v, (int, float)) and not isinstance(v, bool) else v) for k, v in d.items()}
    return {"config": snap(d)}


def outcome_ok(res):
    return {"kind": "ok", "digest": dvalue(res)}


def outcome_exc(e):
    return {"kind": "exc", "digest": dexc(e)}
