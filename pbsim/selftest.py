"""Self-tests of the machinery: determinism (same seed => same event log, across processes, worker counts and hash
seeds) and sensitivity (seeded defects in a scratch copy of the package must be reported by the owning check)."""
import argparse
import json
import os
import shutil
import subprocess
import sys
import tempfile
import time

from pbsim.mutants import MUTANTS

VERIF = os.path.dirname(os.path.dirname(os.path.abspath(__file__)))


def make_scratch(mut, src="/repo"):
    d = tempfile.mkdtemp(prefix="pbmut.")
    shutil.copytree(os.path.join(src, "py_ballisticcalc"), os.path.join(d, "py_ballisticcalc"),
                    ignore=shutil.ignore_patterns("__pycache__"))
    if mut is not None:
        mid, pid, rel, old, new, note = mut
        edits = rel if isinstance(rel, list) else [(rel, old, new)]
        for rel, old, new in edits:
            p = os.path.join(d, rel)
            s = open(p).read()
            if s.count(old) != 1:
                shutil.rmtree(d)
                raise RuntimeError(f"mutant {mid}: anchor occurs {s.count(old)} times in {rel}")
            open(p, "w").write(s.replace(old, new))
    return d


def run_check(pid, repo, tier="quick", extra=(), seed=None, timeout=1800):
    env = dict(os.environ, PBSIM_REPO=repo, PYTHONHASHSEED="0", PYTHONPATH=VERIF, PYTHONDONTWRITEBYTECODE="1")
    if seed is not None:
        env["VERIF_SEED"] = str(seed)
    evd = tempfile.mkdtemp(prefix="pbev.")
    try:
        p = subprocess.run([sys.executable, "-m", "pbsim.main", pid, "--tier", tier, "--evidence-dir", evd, *extra],
                           cwd=VERIF, env=env, capture_output=True, text=True, timeout=timeout)
    finally:
        shutil.rmtree(evd, ignore_errors=True)
    return p.returncode, p.stdout, p.stderr


def run_baseline_tests(scratch):
    """The repository's own tests against the mutated package (tests copied next to it)."""
    shutil.copytree("/repo/tests", os.path.join(scratch, "tests"), ignore=shutil.ignore_patterns("__pycache__"))
    for f in (".pybc.toml",):
        if os.path.exists(os.path.join("/repo", f)):
            shutil.copy(os.path.join("/repo", f), scratch)
    env = dict(os.environ, PYTHONDONTWRITEBYTECODE="1")
    env.pop("PYTHONPATH", None)
    p = subprocess.run([sys.executable, "-m", "pytest", "tests", "-q", "-p", "no:cacheprovider", "-x", "-n", "8",
                        "--timeout=900"], cwd=scratch, env=env, capture_output=True, text=True, timeout=1800)
    tail = p.stdout.strip().splitlines()[-1] if p.stdout.strip() else p.stderr[-300:]
    return p.returncode == 0, tail


def sensitivity(args):
    sel = [m for m in MUTANTS if (not args.prop or m[1] == args.prop) and (not args.id or m[0] in args.id)]
    results = []
    for m in sel:
        mid, pid = m[0], m[1]
        t0 = time.monotonic()
        d = make_scratch(m)
        try:
            tests_ok = None
            if args.with_tests:
                tests_ok, tail = run_baseline_tests(d)
            rc, out, err = run_check(pid, d, tier=args.tier, extra=(["--runs", str(args.runs)] if args.runs else []))
        finally:
            shutil.rmtree(d, ignore_errors=True)
        viol = [l for l in out.splitlines() if l.startswith("VIOLATION")]
        caught = rc == 1 and bool(viol)
        results.append({"mutant": mid, "property": pid, "caught": caught, "rc": rc, "baseline_tests_pass": tests_ok,
                        "wall": round(time.monotonic() - t0, 1)})
        sigs = [l.strip() for l in out.splitlines() if l.strip().startswith("signature:")]
        print(f"{'CAUGHT' if caught else 'MISSED'} {mid} ({pid}) rc={rc} tests_pass={tests_ok} "
              f"{results[-1]['wall']}s {sigs[:2]}", flush=True)
        if not caught and args.verbose:
            print(out[-3000:], err[-2000:])
    missed = [r for r in results if not r["caught"]]
    print(f"sensitivity: {len(results) - len(missed)}/{len(results)} seeded defects caught")
    if args.json:
        json.dump(results, open(args.json, "w"), indent=1)
    return 0 if not missed else 1


def determinism(args):
    """Run each claimed check's quick tier several ways and diff the per-run digests."""
    from pbsim.runner import PROPS
    props = [args.prop] if args.prop else sorted(PROPS)
    bad = 0
    for pid in props:
        digs = []
        for workers, hashseed in ((16, "0"), (1 if args.runs and args.runs <= 8 else 4, "0"), (16, "12345")):
            env = dict(os.environ, PYTHONHASHSEED=hashseed, PYTHONPATH=VERIF, PYTHONDONTWRITEBYTECODE="1",
                       PBSIM_DUMP_DIGESTS="1")
            evd = tempfile.mkdtemp(prefix="pbev.")
            try:
                p = subprocess.run([sys.executable, "-m", "pbsim.main", pid, "--tier", "quick", "--evidence-dir", evd,
                                    "--workers", str(workers), *(["--runs", str(args.runs)] if args.runs else [])],
                                   cwd=VERIF, env=env, capture_output=True, text=True, timeout=3600)
                ev = json.load(open(os.path.join(evd, pid + ".json")))
            finally:
                shutil.rmtree(evd, ignore_errors=True)
            digs.append(ev["coverage"].get("all_run_digests_sha"))
            print(pid, "workers", workers, "hashseed", hashseed, "rc", p.returncode, digs[-1])
        if len(set(digs)) != 1 or digs[0] is None:
            print("NON-DETERMINISTIC", pid, digs)
            bad += 1
    print("determinism:", "ok" if not bad else f"{bad} properties differ")
    return 0 if not bad else 1


def main(argv):
    ap = argparse.ArgumentParser(prog="check selftest")
    ap.add_argument("what", choices=["sensitivity", "determinism"])
    ap.add_argument("--prop")
    ap.add_argument("--id", action="append")
    ap.add_argument("--tier", default="quick")
    ap.add_argument("--runs", type=int)
    ap.add_argument("--with-tests", action="store_true")
    ap.add_argument("--verbose", action="store_true")
    ap.add_argument("--json")
    a = ap.parse_args(argv)
    return sensitivity(a) if a.what == "sensitivity" else determinism(a)
