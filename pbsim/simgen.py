"""Seeded generation of simulation specs (world + task programs + engine configuration + faults) for the
scheduler-based properties (C10, C07 race mode, C02 history clause).  Plain data only."""
import random
from pbsim import gen
from pbsim.names import DIMS, SLOTS
from pbsim.world import empty_world

MODES_QUICK = ["cold", "cold", "cold", "step", "step", "line", "none"]
MODES_THOROUGH = ["cold", "cold", "step", "line", "line", "none"]
POLICIES = ["uniform", "uniform", "pct", "boundary", "boundary"]
MEAN_RUNS = [1, 5, 50, 1000, 10000]


def gen_engine_config(rng, tier, ntasks):
    mode = gen.pick(rng, MODES_QUICK if tier == "quick" else MODES_THOROUGH)
    if ntasks == 1 and mode in ("step",):
        mode = "cold"
    cfg = {"mode": mode, "policy": gen.pick(rng, POLICIES), "mean_run": gen.pick(rng, MEAN_RUNS),
           "opcode": mode in ("line", "cold") and rng.random() < 0.3, "pct_depth": rng.randint(1, 3)}
    if mode == "none":
        cfg["policy"] = "uniform"
        cfg["mean_run"] = gen.pick(rng, [1, 2, 5])       # only op boundaries are pre-emption points
    return cfg


def gen_calc_config(rng, raising=None, allow_default_step=True):
    cfg = {}
    if not (allow_default_step and rng.random() < 0.1):
        cfg["max_calc_step_size_feet"] = gen.pick(rng, [1.0, 2.0, 2.0, 4.0, 4.0, 8.0, 16.0, 20.0])
    else:
        cfg["max_calc_step_size_feet"] = 0.5 if rng.random() < 0.5 else gen.pick(rng, [1.0, 2.0])
        if rng.random() < 0.5:
            del cfg["max_calc_step_size_feet"]        # takes the global default (0.5 ft): slow, so rare
    if rng.random() < 0.2:
        cfg["cGravityConstant"] = -round(rng.uniform(20, 40), 4)
    if rng.random() < 0.2:
        cfg["cZeroFindingAccuracy"] = gen.pick(rng, [5e-6, 1e-4, 1e-3, 1e-5])
    if rng.random() < 0.15:
        cfg["cMaxIterations"] = gen.pick(rng, [10, 20, 30, 40])
    if rng.random() < 0.1:
        cfg["chart_resolution"] = 0.5
    if raising == "velocity":
        cfg["cMinimumVelocity"] = round(rng.uniform(900, 2400), 1)
    elif raising == "drop":
        cfg["cMaximumDrop"] = -round(rng.uniform(0.05, 3.0), 3)
    elif raising == "altitude":
        cfg["cMinimumAltitude"] = 50000.0
    elif raising == "iterations":
        cfg["cMaxIterations"] = gen.pick(rng, [0, 1, 2])
        cfg["cZeroFindingAccuracy"] = 1e-9
    return cfg


def gen_pool(rng, w, n_tables=(2, 4), n_dms=(2, 5), n_ammos=(2, 4), n_atmos=(2, 3), n_winds=(0, 5)):
    for _ in range(rng.randint(*n_tables)):
        w["tables"].append(gen.gen_table(rng, custom_p=0.2))
    for _ in range(rng.randint(*n_dms)):
        w["dms"].append(gen.gen_dm(rng, rng.randrange(len(w["tables"])), mbc_p=0.25))
    # shared quantity instances (hostile but legal aliasing)
    w["qpool"] = [[round(rng.uniform(0, 5), 3), "Degree"], [round(rng.uniform(1.0, 3.0), 2), "Inch"],
                  [round(rng.uniform(0, 3000), 1), "Foot"], [round(rng.uniform(15, 30), 1), "Celsius"],
                  [round(rng.uniform(2400, 3000), 1), "FPS"]]
    for _ in range(rng.randint(*n_ammos)):
        a = {"dm": rng.randrange(len(w["dms"])),
             "mv": {"ref": 4} if rng.random() < 0.2 else gen.gen_velocity_fps(rng, round(rng.uniform(1100, 3300), 1))}
        if rng.random() < 0.4:
            a["powder_temp"] = {"ref": 3} if rng.random() < 0.3 else [round(rng.uniform(0, 30), 1), "Celsius"]
        if rng.random() < 0.3:
            a["use_ps"] = True
            a["temp_modifier"] = round(rng.uniform(0.002, 0.05), 4)     # fraction of v0 per 15 C (README example: 0.0123)
        w["ammos"].append(a)
    w["shared_ammos"] = len(w["ammos"])
    for _ in range(rng.randint(*n_atmos)):
        at = gen.gen_atmo(rng, max_alt_ft=9000)
        if rng.random() < 0.25:
            at["altitude"] = {"ref": 2}
        w["atmos"].append(at)
    w["shared_atmos"] = len(w["atmos"])          # atmospheres added later are owned by the task that edits them
    for _ in range(rng.randint(*n_winds)):
        w["winds"].append(gen.gen_wind(rng, max_fps=40.0,
                                       until_ft=None if rng.random() < 0.3 else round(rng.uniform(100, 2500), 1)))
    nl = rng.randint(1, 3)
    for _ in range(nl):
        k = rng.randint(0, min(4, len(w["winds"])))
        w["windlists"].append(rng.sample(range(len(w["winds"])), k) if k else [])


def gen_weapon(rng):
    w = {"sight_height": {"ref": 1} if rng.random() < 0.25 else [round(rng.uniform(-1.0, 4.0), 2), gen.pick(rng, ["Inch", "Centimeter"])],
         "twist": [gen.pick(rng, [0, 7, 9, 10, 11.24, 12, -8, -10]), "Inch"],
         "zero": gen.gen_angle_deg(rng, round(rng.uniform(-0.1, 0.4), 4))}
    # arguments LEFT OUT (the constructor's own defaults) are inputs too (side stream, see gen_shot)
    r2 = random.Random(repr(rng.getstate()[1][:6]) + "omit")
    for f in ("twist", "zero", "sight_height"):
        if r2.random() < 0.12:
            w[f] = None
    return w


def gen_shot(rng, w, weapon_id, steep_p=0.15):
    look = round(rng.uniform(-3, 3), 3)
    if rng.random() < steep_p:
        look = round(rng.uniform(-25, 25), 2)
    # only the shared pool: ammunition added later for calibration is owned by the task that calibrates it
    s = {"weapon": weapon_id, "ammo": rng.randrange(w.get("shared_ammos", len(w["ammos"]))),
         "atmo": rng.randrange(w.get("shared_atmos", len(w["atmos"]))),
         "look": {"ref": 0} if rng.random() < 0.2 else gen.gen_angle_deg(rng, look),
         "relative": gen.gen_angle_deg(rng, gen.pick(rng, [0.0, 0.0, round(rng.uniform(-0.3, 1.0), 3)])),
         "cant": gen.gen_angle_deg(rng, gen.pick(rng, [0.0, 0.0, 0.0, round(rng.uniform(-20, 20), 1)]))}
    wl = rng.randrange(len(w["windlists"]) + 1)
    s["winds"] = None if wl == len(w["windlists"]) or not w["windlists"][wl] else wl
    # the DEFAULT sight line - look angle exactly 0 - is what most real shots have, and code may special-case it
    # (side stream derived from the generator's state without consuming it: the other draws of a seed stay as they were)
    r2 = random.Random(repr(rng.getstate()[1][:6]))
    if r2.random() < 0.35:
        s["look"] = [0.0, gen.pick(r2, ["Degree", "Radian", "MOA"])]
    return s


def gen_range(rng, lo=50, hi=800):
    return gen.gen_distance_ft(rng, round(rng.uniform(lo, hi) * 3, 1), ("Yard", "Meter", "Foot"))


def gen_mk_op(rng):
    """standalone constructor call on an inline mini-world (result digested, not used further)"""
    what = gen.pick(rng, ["dm", "dm", "atmo", "ammo", "wind", "weapon", "shot"])
    w = empty_world()
    w["tables"].append(gen.gen_table(rng, 0.2))
    w["dms"].append(gen.gen_dm(rng, 0, mbc_p=0.4))
    w["ammos"].append({"dm": 0, "mv": gen.gen_velocity_fps(rng, round(rng.uniform(800, 3300), 1))})
    w["atmos"].append(gen.gen_atmo(rng))
    w["winds"].append(gen.gen_wind(rng, until_ft=round(rng.uniform(100, 900), 1)))
    w["windlists"].append([0])
    w["weapons"].append(gen_weapon(rng))
    w["weapons"][0]["sight_height"] = [1.5, "Inch"]
    w["shots"].append({"weapon": 0, "ammo": 0, "atmo": 0, "winds": 0, "look": gen.gen_angle_deg(rng, 1.5),
                       "relative": [0.0, "Degree"], "cant": [0.0, "Degree"]})
    if what == "atmo" and rng.random() < 0.25:
        # a temperature below absolute zero: the library warns and substitutes its lowest modelled temperature
        w["atmos"][0] = {"kind": "explicit", "altitude": [100.0, "Foot"], "pressure": [29.9, "InHg"],
                         "temperature": [-500.0, "Fahrenheit"], "humidity": 0.0}
        return {"op": "mk", "what": what, "world": w, "warns": True}
    bad = rng.random() < 0.2
    if bad:
        if what == "dm":
            if rng.random() < 0.5:
                w["dms"][0].pop("mbc", None)
                w["dms"][0]["bc"] = -0.1
            else:
                w["tables"][0] = {"kind": "custom", "points": []}
        elif what == "atmo":
            w["atmos"][0] = {"kind": "explicit", "altitude": [100.0, "Foot"], "pressure": [29.9, "InHg"],
                             "temperature": [15.0, "Celsius"], "humidity": 150.0}
    return {"op": "mk", "what": what, "world": w}


RETAG_FIELDS = {"winds": [("velocity", "Velocity"), ("direction_from", "Angular"), ("until_distance", "Distance")],
                "weapons": [("sight_height", "Distance"), ("twist", "Distance"), ("zero_elevation", "Angular")],
                "shots": [("look_angle", "Angular"), ("relative_angle", "Angular"), ("cant_angle", "Angular")],
                "ammos": [("mv", "Velocity"), ("powder_temp", "Temperature")],
                "atmos": [("altitude", "Distance"), ("pressure", "Pressure"), ("temperature", "Temperature")],
                "dms": [("weight", "Weight"), ("diameter", "Distance"), ("length", "Distance")]}


def gen_retag(rng, w, kinds=("winds", "winds", "winds", "weapons", "shots", "ammos", "atmos", "dms")):
    kind = gen.pick(rng, [k for k in kinds if w.get(k)])
    f, dim = gen.pick(rng, RETAG_FIELDS[kind])
    return {"op": "retag", "kind": kind, "index": rng.randrange(len(w[kind])), "field": f, "unit": pick_unit(rng, dim)}


def gen_fire_tmp(rng, calc, family):
    """fire with objects that live only for this operation; within one task the tables of these throw-away models
    belong to ONE family (same shipped table, stride and offset => same length, different contents), the situation in
    which a cache keyed by object identity or by a weak summary goes stale"""
    w = empty_world()
    w["tables"].append(dict(family, cd_scale=round(rng.uniform(0.5, 1.6), 3), mach_scale=round(rng.uniform(0.9, 1.1), 3)))
    w["dms"].append({"table": 0, "bc": gen.pick(rng, [0.25, 0.3, 0.3, 0.45]), "weight": [150.0, "Grain"],
                     "diameter": [0.308, "Inch"], "length": [1.2, "Inch"]})
    w["ammos"].append({"dm": 0, "mv": [gen.pick(rng, [2400.0, 2700.0, 2700.0, 3000.0]), "FPS"]})
    w["weapons"].append({"sight_height": [2.0, "Inch"], "twist": [10.0, "Inch"], "zero": [0.08, "Degree"]})
    w["atmos"].append({"kind": "icao", "altitude": [gen.pick(rng, [0.0, 1500.0]), "Foot"]})
    winds = None
    if rng.random() < 0.5:
        # two or three wind segments whose until-distances are written in DIFFERENT units and are close in value
        # (100 yd vs 95 m: displayed numbers order differently from the distances)
        for until in rng.sample([[100.0, "Yard"], [95.0, "Meter"], [290.0, "Foot"], [0.11, "Kilometer"], [3300.0, "Inch"]], rng.randint(2, 3)):
            w["winds"].append({"velocity": [round(rng.uniform(3, 25), 1), "MPH"], "direction": [gen.pick(rng, [90.0, 270.0, 45.0]), "Degree"],
                               "until": until})
        w["windlists"].append(list(range(len(w["winds"]))))
        winds = 0
    w["shots"].append({"weapon": 0, "ammo": 0, "atmo": 0, "winds": winds, "look": [0.0, "Degree"],
                       "relative": [0.0, "Degree"], "cant": [0.0, "Degree"]})
    return {"op": "fire_tmp", "calc": calc, "world": w, "range": [gen.pick(rng, [200.0, 300.0]), "Yard"],
            "step": [100.0, "Yard"]}


def gen_client_program(rng, w, task_idx, calcs, shots, n_ops, raising_calcs, allow=("fire", "zero", "elev", "danger", "mk", "powder", "fire_tmp", "edit", "edit", "retag")):
    """calcs: list of calc ids owned by the task; raising_calcs: {cid: kind}.  Every calc is created by a new_calc
    op before its first use (sometimes late, so creation interleaves with other tasks' work)."""
    prog = []
    created = []
    pending = list(calcs)
    prog.append({"op": "new_calc", "calc": pending.pop(0)})
    created.append(prog[0]["calc"])
    own_ammos = []
    if "edit" in allow and rng.random() < 0.45:
        # private ammunition + drag model + shot from the start: objects the task may edit between computations
        w["dms"].append(dict(w["dms"][rng.randrange(len(w["dms"]))]))
        w["ammos"].append({"dm": len(w["dms"]) - 1, "mv": [round(rng.uniform(2300, 3000), 1), "FPS"],
                           "powder_temp": [15.0, "Celsius"], "use_ps": True, "temp_modifier": 0.02})
        own_ammos.append(len(w["ammos"]) - 1)
        sh = dict(w["shots"][shots[0]])
        sh["ammo"] = own_ammos[0]
        w["shots"].append(sh)
        shots.append(len(w["shots"]) - 1)
    family = {"kind": "derived", "name": gen.pick(rng, gen.SHIPPED_TABLES), "stride": rng.randint(1, 3), "offset": rng.randint(0, 2)}
    while len(prog) < n_ops:
        if pending and rng.random() < 0.3:
            c = pending.pop(0)
            prog.append({"op": "new_calc", "calc": c})
            created.append(c)
            continue
        if rng.random() < 0.05:
            # an input that makes the library WARN (temperature below absolute zero): its outcome depends on the user's
            # warnings filter - and must depend on nothing else
            mw = empty_world()
            mw["atmos"].append({"kind": "explicit", "altitude": [100.0, "Foot"], "pressure": [29.9, "InHg"],
                                "temperature": [-500.0, "Fahrenheit"], "humidity": 0.0})
            prog.append({"op": "mk", "what": "atmo", "world": mw, "warns": True})
            continue
        kept = [k_ for k_, o in enumerate(prog) if o.get("op") in ("fire", "zero", "elev", "danger", "fire_tmp")]
        if kept and rng.random() < 0.12:
            prog.append({"op": "reread", "src": gen.pick(rng, kept)})      # look again at a result object kept earlier
            continue
        # "repeating it gives bit-identical results": sometimes repeat an earlier computation verbatim
        prev = [o for o in prog if o.get("op") in ("fire", "zero", "elev")]
        if prev and rng.random() < 0.18:
            prog.append(dict(gen.pick(rng, prev)))
            continue
        c = gen.pick(rng, created)
        s = gen.pick(rng, shots)
        r = rng.random()
        kind = gen.pick(rng, list(allow))
        if kind == "fire":
            op = {"op": "fire", "calc": c, "shot": s, "range": gen_range(rng), "extra": rng.random() < 0.4}
            rft = gen.to_feet(op["range"])
            if rng.random() < 0.8:
                op["step"] = gen.gen_distance_ft(rng, round(rft / gen.pick(rng, [2, 4, 5, 7.5, 10, 16]), 2),
                                                 ("Yard", "Meter", "Foot"))
            if rng.random() < 0.15:
                op["time_step"] = round(rng.uniform(0.01, 0.3), 3)
            if rng.random() < 0.03:
                op["range"] = [-100.0, "Yard"]              # degenerate request: raises deterministically
            prog.append(op)
            fire_idx = len(prog) - 1
            for _q in range(rng.randint(1, 3) if (op["extra"] and "danger" in allow and rng.random() < 0.6) else 0):
              if len(prog) < n_ops + 2:
                    at = rft * rng.uniform(0.2, 1.3)             # sometimes beyond the trajectory -> ArithmeticError
                    if op.get("step") is not None and rng.random() < 0.45:
                        # boundary values of "first row with distance >= d": on / just below / just above a recorded row
                        sft = gen.to_feet(op["step"])
                        k = rng.randint(1, max(1, int(rft / sft)))
                        at = max(1.0, k * sft + gen.pick(rng, [0.0, -0.5, 0.5, -1.5, 1.5, -3.0, 3.0, -4.5, 4.5, 1e-6, -1e-6]))
                    if rng.random() < 0.3:
                        prog.append({"op": "at_dist", "fire": fire_idx, "d": [round(at, 4), "Foot"]})
                        continue
                    prog.append({"op": "danger", "fire": fire_idx,
                                 "at": [round(at, 4), "Foot"] if rng.random() < 0.5 else
                                 gen.gen_distance_ft(rng, round(at, 1), ("Yard", "Meter", "Foot")),
                                 "height": [round(rng.uniform(0.2, 3.0), 2), gen.pick(rng, ["Meter", "Foot", "Yard"])],
                                 "look": None if rng.random() < 0.5 else gen.gen_angle_deg(rng, gen.pick(rng, [2.0, -1.5, 5.0]))})
        elif kind == "zero":
            # far (mostly unreachable) targets only on coarse calculators: 20+ trial trajectories of several km each
            far = rng.random() < 0.08 and (w["calcs"][c].get("config") or {}).get("max_calc_step_size_feet", 0.5) >= 4.0
            prog.append({"op": "zero", "calc": c, "shot": s,
                         "dist": gen_range(rng, 25, 400) if not far else gen_range(rng, 4000, 9000)})
        elif kind == "elev":
            prog.append({"op": "elev", "calc": c, "shot": s, "dist": gen_range(rng, 25, 500)})
        elif kind == "danger":
            continue
        elif kind == "mk":
            prog.append(gen_mk_op(rng))
        elif kind == "retag":
            prog.append(gen_retag(rng, w))
        elif kind == "edit":
            # the caller changes a field of an object it owns between computations (holds, a different load, ...)
            if not own_ammos and rng.random() < 0.5:
                continue
            tgt = gen.pick(rng, ["shot", "weapon", "ammo", "dm", "dm"] if own_ammos else ["shot", "shot", "weapon"])
            if tgt in ("ammo", "dm"):
                s = next(k for k in shots if w["shots"][k]["ammo"] == own_ammos[0])
            r2 = random.Random(repr(rng.getstate()[1][:6]))            # side stream (see gen_shot)
            if r2.random() < 0.2:
                # the weather changes: humidity of an atmosphere this task owns (explicit station conditions), through the
                # public property setter
                tgt = "atmo"
                w["atmos"].append({"kind": "explicit", "altitude": [round(r2.uniform(0, 4000), 1), "Foot"],
                                   "pressure": [round(r2.uniform(26.0, 30.5), 2), "InHg"],
                                   "temperature": [round(r2.uniform(-5, 35), 1), "Celsius"],
                                   "humidity": gen.pick(r2, [0.0, 0.2, 0.5])})
                sh = dict(w["shots"][s])
                sh["atmo"] = len(w["atmos"]) - 1
                w["shots"].append(sh)
                shots.append(len(w["shots"]) - 1)
                s = shots[-1]
            # computation - edit - the same computation again: the second must see the edit
            around = {"op": "fire", "calc": c, "shot": s, "range": gen_range(rng, 100, 400), "step": [100.0, "Yard"]}
            prog.append(dict(around))
            if tgt == "shot":
                f = gen.pick(rng, ["relative_angle", "relative_angle", "look_angle", "cant_angle"])
                v = gen.gen_angle_deg(rng, round(rng.uniform(-0.5, 2.0) if f != "cant_angle" else rng.uniform(-10, 10), 3))
                prog.append({"op": "edit", "kind": "shots", "index": s, "field": f, "value": v})
            elif tgt == "weapon":
                f = gen.pick(rng, ["sight_height", "twist"])
                v = [round(rng.uniform(1.0, 3.5), 2), "Inch"] if f == "sight_height" else [gen.pick(rng, [8.0, 9.0, 12.0, -10.0]), "Inch"]
                prog.append({"op": "edit", "kind": "weapons", "index": w["shots"][s]["weapon"], "field": f, "value": v})
            elif tgt == "atmo":
                prog.append({"op": "edit", "kind": "atmos", "index": w["shots"][s]["atmo"], "field": "humidity",
                             "value": gen.pick(r2, [0.9, 0.75, 1.0, 60.0, 95.0])})
            elif tgt == "ammo":
                prog.append({"op": "edit", "kind": "ammos", "index": own_ammos[0], "field": "mv",
                             "value": [round(rng.uniform(2300, 3100), 1), "FPS"]})
            else:
                did = w["ammos"][own_ammos[0]]["dm"]
                if rng.random() < 0.5:
                    prog.append({"op": "edit", "kind": "dms", "index": did, "field": "BC", "value": round(rng.uniform(0.2, 0.6), 3)})
                else:
                    prog.append({"op": "edit", "kind": "dms", "index": did, "field": "CD@%d" % rng.randrange(5, 40),
                                 "value": round(rng.uniform(0.15, 0.6), 4)})
            if prog[-1].get("op") == "edit":
                prog.append(dict(around))
        elif kind == "fire_tmp":
            for _ in range(rng.randint(1, 3)):          # in bursts: each one frees its objects before the next is built
                prog.append(gen_fire_tmp(rng, c, family))
        elif kind == "powder":
            # ammunition calibrated by this task must be owned by it: add a private ammo + shot
            if not own_ammos:
                w["dms"].append(dict(w["dms"][rng.randrange(len(w["dms"]))]))      # a private drag model too
                a = {"dm": len(w["dms"]) - 1, "mv": [round(rng.uniform(2300, 3000), 1), "FPS"],
                     "powder_temp": [15.0, "Celsius"], "use_ps": True}
                w["ammos"].append(a)
                aid = len(w["ammos"]) - 1
                own_ammos.append(aid)
                sh = dict(w["shots"][s])
                sh["ammo"] = aid
                w["shots"].append(sh)
                shots.append(len(w["shots"]) - 1)
            aid = own_ammos[0]
            if rng.random() < 0.6:
                # a realistic second measurement: a few percent of the stated velocity, at least 10 C away from it
                base = gen.to_fps(w["ammos"][aid]["mv"])
                prog.append({"op": "powder", "ammo": aid, "v": [round(base * (1 + rng.uniform(-0.04, 0.04)), 1), "FPS"],
                             "t": [round(15.0 + gen.pick(rng, [-1, 1]) * rng.uniform(10, 35), 1), "Celsius"]})
            else:
                prog.append({"op": "vel_for_temp", "ammo": aid, "t": [round(rng.uniform(-20, 40), 1), "Celsius"]})
    # any calculator never created would be unused: fine
    add_clones(prog, rng, 0.12)
    return prog


def add_clones(prog, rng, p):
    """mark some fire / elev operations to be carried out on COPIES of the shot and/or calculator"""
    r2 = random.Random(repr(rng.getstate()[1][:6]) + "clone")            # side stream (see gen_shot)
    for op in prog:
        if op.get("op") in ("fire", "elev") and not op.get("clone") and r2.random() < p:
            op["clone"] = {"what": gen.pick(r2, ["shot", "shot", "calc", "both"]),
                           "how": gen.pick(r2, ["copy", "deepcopy", "pickle", "deepcopy", "pickle"])}


def gen_admin_perturb_program(rng, n):
    """environment perturbations that must not change any result (C10)"""
    prog = []
    for _ in range(n):
        k = gen.pick(rng, ["set_debug", "set_debug", "log_sink", "warn_filter", "warn_filter"])
        if k == "set_debug":
            prog.append({"op": "set_debug", "value": rng.random() < 0.6})
        elif k == "log_sink":
            prog.append({"op": "log_sink", "action": gen.pick(rng, ["attach", "attach", "detach"]),
                         "failing": rng.random() < 0.7, "name": "s%d" % rng.randrange(2)})
        else:
            prog.append({"op": "warn_filter", "action": gen.pick(rng, ["error", "error", "error", "ignore", "default", "always", "reset"])})
    return prog


EXTREME_UNITS = {"Distance": ["Mile", "NauticalMile", "Kilometer", "Line", "Millimeter"],
                 "Angular": ["OClock", "Radian", "InchesPer100Yd", "CmPer100m"], "Temperature": ["Kelvin", "Rankin"],
                 "Velocity": ["KT", "KMH"], "Pressure": ["Bar", "PSI"], "Weight": ["Newton", "Kilogram", "Pound"],
                 "Energy": ["Joule"]}
HOT_SLOTS = ["distance", "distance", "distance", "drop", "adjustment", "angular", "temperature", "velocity",
             "target_height", "sight_height", "length", "diameter", "weight", "pressure", "twist"]


def pick_slot(rng):
    return gen.pick(rng, HOT_SLOTS) if rng.random() < 0.5 else gen.pick(rng, list(SLOTS))


def pick_unit(rng, dim):
    """swarm style: half of the time a unit at the coarse / fine / non-linear end of the dimension"""
    if rng.random() < 0.5:
        return gen.pick(rng, EXTREME_UNITS[dim])
    return gen.pick(rng, DIMS[dim])


def gen_units_flip_program(rng, n):
    """legal changes of the preferred-unit settings (C07 race mode, C13)"""
    prog = []
    for _ in range(n):
        k = gen.pick(rng, ["set_units", "set_units", "assign_unit", "assign_unit", "defaults", "preset", "basic_config"])
        if k == "set_units":
            slots = {}
            for s in sorted({pick_slot(rng) for _ in range(rng.randint(1, 4))}):     # sorted: hash-seed independent
                r = rng.random()
                if r < 0.65:
                    slots[s] = ["enum", pick_unit(rng, SLOTS[s][0])]
                elif r < 0.85:
                    # by name, as a config file or a UI would: a documented spelling in some letter case
                    from pbsim.names import UNIT_ALIASES
                    u = pick_unit(rng, SLOTS[s][0])
                    name = gen.pick(rng, [u] + UNIT_ALIASES[u])
                    slots[s] = ["name", gen.pick(rng, [name, name.lower(), name.upper()])]
                else:
                    slots[s] = ["name", gen.pick(rng, ["xyz", "meterz", "footpounds", ""])]   # unknown: must change nothing
            prog.append({"op": "set_units", "slots": slots})
        elif k == "assign_unit":
            s = pick_slot(rng)
            prog.append({"op": "assign_unit", "slot": s, "unit": pick_unit(rng, SLOTS[s][0])})
        elif k == "defaults":
            prog.append({"op": "defaults"})
        elif k == "preset":
            prog.append({"op": "preset", "which": gen.pick(rng, ["metric", "imperial", "mixed"])})
        else:
            s = pick_slot(rng)
            prog.append({"op": "basic_config", "units": {s: pick_unit(rng, SLOTS[s][0])}})
    return prog


def tame_for_line_mode(programs, cfg):
    """full line tracing costs ~60 events per integration step: far zeroings (thousands of yards, up to 20+ trial
    trajectories) belong to the cheaper modes - rewrite them to a moderate distance when the run traces every line"""
    if cfg.get("mode") != "line":
        return
    for p in programs:
        for op in p:
            if op.get("op") in ("zero", "elev") and isinstance(op.get("dist"), list) and gen.to_feet(op["dist"]) > 4500:
                op["dist"] = [1500.0, "Yard"]


def gen_interrupts(rng, programs, roles, mode, max_n):
    """interrupt faults aimed inside client operations that create in-flight state"""
    faults = []
    cands = [(ti, i, op) for ti, p in enumerate(programs) if roles.get(str(ti), "client") == "client"
             for i, op in enumerate(p) if op.get("op") in ("fire", "zero", "elev", "mk", "new_calc", "powder")]
    rng.shuffle(cands)
    est = {"line": 40000, "cold": 600, "step": 1500, "none": 0}[mode]
    if est == 0:
        return faults
    # sometimes the interrupt hits the ADMIN side: a settings change / preset load broken off half-way (what is left is a
    # legal state - every slot still holds a unit - and everything after it must behave accordingly)
    adm = [(ti, i, op) for ti, p in enumerate(programs) if roles.get(str(ti)) == "admin"
           for i, op in enumerate(p) if op.get("op") in ("set_units", "preset", "defaults", "basic_config", "gstep")]
    if adm and mode != "none" and rng.random() < 0.35:
        ti, i, op = adm[rng.randrange(len(adm))]
        faults.append({"kind": "interrupt", "task": ti, "op": i, "at": rng.randint(1, 120 if op["op"] in ("preset", "basic_config") else 25),
                       "exc": "MemoryError" if rng.random() < 0.25 else "SimInterrupt"})
    for ti, i, op in cands[:max_n]:
        if rng.random() < 0.4 and op["op"] in ("fire", "zero", "elev", "powder"):
            programs[ti].append(dict(op))          # ... and the interrupted operation is RETRIED later on the same objects
        if op["op"] in ("mk", "new_calc", "powder"):
            at = rng.randint(1, 60 if mode != "step" else 1)
        elif rng.random() < 0.5:
            at = rng.randint(1, 250 if mode != "step" else 30)
        else:
            at = rng.randint(1, est * (4 if op["op"] == "zero" else 1))
        faults.append({"kind": "interrupt", "task": ti, "op": i, "at": at,
                       "exc": "MemoryError" if rng.random() < 0.25 else "SimInterrupt"})
    return faults
