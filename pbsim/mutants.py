"""Seeded defects for the sensitivity self-test: (id, property, file, old, new, note).

Each is a textual replacement inside a scratch copy of the package (never in /repo).  `old` must occur exactly once.
A defect belongs here only if the mutated tree still imports and (checked separately, see DESIGN section 9) passes
the repository's 108 baseline tests."""

TC = "py_ballisticcalc/trajectory_calc/_trajectory_calc.py"
UN = "py_ballisticcalc/unit.py"
DM = "py_ballisticcalc/drag_model.py"
IF = "py_ballisticcalc/interface.py"
IC = "py_ballisticcalc/interface_config.py"
CO = "py_ballisticcalc/conditions.py"
TD = "py_ballisticcalc/trajectory_data/_trajectory_data.py"
IN = "py_ballisticcalc/__init__.py"
TI = "py_ballisticcalc/trajectory_calc/__init__.py"
EX = "py_ballisticcalc/exceptions/exceptions.py"
MU = "py_ballisticcalc/munition.py"

MUTANTS = [
    # ---------------------------------------------------------------- C04
    ("c04-precedence-swapped", "C04", TC,
     """                if velocity < _cMinimumVelocity:
                    reason = RangeError.MinimumVelocityReached
                elif range_vector.y < _cMaximumDrop:
                    reason = RangeError.MaximumDropReached
                else:
                    reason = RangeError.MinimumAltitudeReached""",
     """                if range_vector.y < _cMaximumDrop:
                    reason = RangeError.MaximumDropReached
                elif velocity < _cMinimumVelocity:
                    reason = RangeError.MinimumVelocityReached
                else:
                    reason = RangeError.MinimumAltitudeReached""",
     "reason precedence swapped (needs two limits violated in the same step)"),
    ("c04-terminal-row-omitted", "C04", TC,
     """                ranges.append(create_trajectory_row(
                    time, range_vector, velocity_vector,
                    velocity, mach, self.spin_drift(time), self.look_angle,
                    density_factor, drag, self.weight, data_filter.current_flag
                ))
                if velocity < _cMinimumVelocity:""",
     """                if len(ranges) < 1:
                  ranges.append(create_trajectory_row(
                    time, range_vector, velocity_vector,
                    velocity, mach, self.spin_drift(time), self.look_angle,
                    density_factor, drag, self.weight, data_filter.current_flag
                  ))
                if velocity < _cMinimumVelocity:""",
     "terminal (violating) row no longer appended once a row exists: last row does not violate the limit"),
    ("c04-last-distance-first-row", "C04", EX,
     "            self.last_distance = ranges[-1].distance",
     "            self.last_distance = ranges[0].distance if len(ranges) > 3 else ranges[-1].distance",
     "last_distance taken from the first row for longer partial trajectories"),
    ("c04-altitude-skipped-at-x0", "C04", TC,
     "                    or self.alt0 + range_vector.y < _cMinimumAltitude\n",
     "                    or (range_vector.x > 1e-3 and self.alt0 + range_vector.y < _cMinimumAltitude)\n",
     "altitude limit not tested while x ~ 0 (vertical / zero-velocity launches fall through the floor)"),
    ("c04-abort-one-step-late", "C04", TC,
     """            if (
                    velocity < _cMinimumVelocity
                    or range_vector.y < _cMaximumDrop""",
     """            if (
                    velocity < _cMinimumVelocity - (0.35 if time > 1.5 else 0.0)
                    or range_vector.y < _cMaximumDrop""",
     "velocity limit applied with a hidden margin late in flight: an earlier row already violates the limit"),
    ("c04-drop-uses-stale-limit", "C04", TC,
     "        _cMaximumDrop = self._config.cMaximumDrop\n",
     "        _cMaximumDrop = min(self._config.cMaximumDrop, -5.0)\n",
     "drop limits tighter than -5 ft silently ignored"),
    # ---------------------------------------------------------------- C10
    ("c10-skip-init-same-shot", "C10", TC,
     """        self._init_trajectory(shot_info)
        return self._integrate(shot_info, max_range >> Distance.Foot,""",
     """        if getattr(self, '_last_shot', None) is not shot_info:
            self._init_trajectory(shot_info)
            self._last_shot = shot_info
        return self._integrate(shot_info, max_range >> Distance.Foot,""",
     "history-only: per-shot state not re-derived when the same Shot object is fired again (stale after a zeroing)"),
    ("c10-class-level-drag-state", "C10", TC,
     """        self._bc: float = shot_info.ammo.dm.BC
        self._table_data: List[DragDataPoint] = shot_info.ammo.dm.drag_table
        self._curve: List[CurvePoint] = calculate_curve(self._table_data)""",
     """        TrajectoryCalc._bc = shot_info.ammo.dm.BC
        self._table_data: List[DragDataPoint] = shot_info.ammo.dm.drag_table
        TrajectoryCalc._curve = calculate_curve(self._table_data)""",
     "schedule-only: per-shot drag state written to the class, shared by all calculators (sequential use is correct)"),
    ("c10-shared-mach-list", "C10", TC,
     """def _get_only_mach_data(data: List[DragDataPoint]) -> List[float]:
    result = []
""",
     """_MACH_SCRATCH: List[float] = []


def _get_only_mach_data(data: List[DragDataPoint]) -> List[float]:
    result = _MACH_SCRATCH
    result.clear()
""",
     "schedule-only: Mach list built in a module-level scratch list reused by every calculator"),
    ("c10-winds-sorted-in-place", "C10", CO,
     "        return tuple(sorted(self._winds, key=lambda wind: wind.until_distance.raw_value))",
     "        self._winds.sort(key=lambda wind: wind.until_distance.raw_value)\n        return tuple(self._winds)",
     "firing reorders the caller's wind list in place"),
    ("c10-coarse-step-after-failure", "C10", [(TC,
     """        preferred_step = self._config.max_calc_step_size_feet
        if step == 0:""",
     """        preferred_step = self._config.max_calc_step_size_feet
        if getattr(self, '_recover', False):
            self._recover = False
            preferred_step = preferred_step * 2
        if step == 0:"""), (TC,
     "                raise RangeError(reason, ranges)\n",
     "                self._recover = True\n                raise RangeError(reason, ranges)\n")], None, None,
     "history-only (two cooperating sites): a sticky flag set on the range-error path coarsens the next computation"),
    ("c10-zero-resets-relative-angle", "C10", IF,
     "        shot.weapon.zero_elevation = self.barrel_elevation_for_target(shot, zero_distance)\n",
     "        shot.weapon.zero_elevation = self.barrel_elevation_for_target(shot, zero_distance)\n"
     "        shot.relative_angle = Angular.Radian(0)\n",
     "zeroing also rewrites the shot's relative angle"),
    ("c10-atmo-torn-memo", "C10", CO,
     """        # Within 30 ft of initial altitude use initial values to save compute
        if math.fabs(self._a0 - altitude) < 30:""",
     """        if getattr(self, '_memo_alt', None) == altitude:
            return self._memo_val
        self._memo_alt = altitude
        self._memo_val = self._get_dfm(altitude)
        return self._memo_val

    def _get_dfm(self, altitude: float) -> Tuple[float, float]:
        # Within 30 ft of initial altitude use initial values to save compute
        if math.fabs(self._a0 - altitude) < 30:""",
     "last-lookup memo kept in two fields of the (shared) atmosphere object"),
    # ---------------------------------------------------------------- C13
    ("c13-hash-includes-display-unit", "C13", UN,
     "        return hash(self._value)\n",
     "        return hash((self._value, self._defined_units))\n",
     "the defect repaired by the fix: commit, re-seeded"),
    ("c13-convert-round-trips-magnitude", "C13", UN,
     "        self._defined_units = units\n        return self\n",
     "        self._value = self.to_raw(self.from_raw(self._value, units), units)\n"
     "        self._defined_units = units\n        return self\n",
     "in-place conversion recomputes the magnitude through the display unit (drifts by ulps over a history)"),
    ("c13-eq-compares-display-values", "C13", UN,
     "    def __eq__(self, other):\n        return float(self) == other\n",
     "    def __eq__(self, other):\n        if isinstance(other, AbstractDimension):\n"
     "            return self.unit_value == other.unit_value\n        return float(self) == other\n",
     "equality between quantities compares displayed numbers"),
    ("c13-lt-compares-display-values", "C13", UN,
     "    def __lt__(self, other):\n        return float(self) < other\n",
     "    def __lt__(self, other):\n        if isinstance(other, AbstractDimension) and other.units != self.units:\n"
     "            return self.unit_value < other.unit_value\n        return float(self) < other\n",
     "ordering between quantities in different display units compares displayed numbers"),
    ("c13-foreign-unit-read-returns-number", "C13", UN,
     "        if units not in self.__dict__.values():\n"
     "            raise UnitConversionError(f'{self.__class__.__name__}: unit {units} is not supported')\n",
     "        if units not in self.__dict__.values() and not (30 <= units < 50):\n"
     "            raise UnitConversionError(f'{self.__class__.__name__}: unit {units} is not supported')\n",
     "reading a quantity in an energy or pressure unit of another dimension returns 0 instead of raising"),
    ("c13-wind-clamps-until-distance-in-place", "C13", CO,
     "            until_distance if until_distance is not None else Distance.Foot(self.MAX_DISTANCE_FEET))\n",
     "            until_distance if until_distance is not None else Distance.Foot(self.MAX_DISTANCE_FEET))\n"
     "        if self.until_distance._value < 12.0:\n            self.until_distance._value = 12.0\n",
     "a library call rewrites the magnitude of the caller's quantity (Wind clamps a short until-distance in place)"),
    # ---------------------------------------------------------------- C14
    ("c14-reuses-callers-data-points", "C14", DM,
     """            DragDataPoint(point.Mach, point.CD) if isinstance(point, DragDataPoint)
            else DragDataPoint(point['Mach'], point['CD'])""",
     """            point if isinstance(point, DragDataPoint)
            else DragDataPoint(point['Mach'], point['CD'])""",
     "the defect repaired by the fix: commit, re-seeded (needs a table taken from another model)"),
    ("c14-divides-callers-bc-in-place", "C14", [
        (DM, "[x.BC / bc for x in bc_points])", "[_scale_bc(x, bc) for x in bc_points])"),
        (DM, "def sectional_density(", "def _scale_bc(x, bc):\n    x.BC = x.BC / bc\n    return x.BC\n\n\ndef sectional_density("),
     ], None, None,
     "BC of the caller's points divided in place (only visible with weight and diameter, compounds on reuse)"),
    ("c14-clamp-dropped", "C14", DM,
     """        elif xi >= xp[-1]:
            y.append(yp[-1])""",
     """        elif xi >= xp[-1]:
            y.append(yp[-1] + (yp[-1] - yp[-2]) / (xp[-1] - xp[-2]) * (xi - xp[-1]) if len(xp) > 1 else yp[-1])""",
     "BC extrapolated linearly above the last point instead of clamped"),
    ("c14-sort-dropped", "C14", DM,
     "    bc_points.sort(key=lambda p: p.Mach)  # Make sure bc_points are sorted for linear interpolation\n",
     "    pass\n",
     "points no longer sorted: wrong interpolation for lists given out of order"),
    ("c14-model-cache-by-point-list", "C14", [
        (DM, "def DragModelMultiBC(", "_MBC_CACHE: dict = {}\n\n\ndef DragModelMultiBC("),
        (DM, "    drag_table = make_data_points(drag_table)  # Convert from list of dicts to list of DragDataPoints\n",
         "    _key = (id(bc_points), len(drag_table), bc)\n    if _key in _MBC_CACHE:\n        return _MBC_CACHE[_key]\n"
         "    if len(_MBC_CACHE) > 64:\n        _MBC_CACHE.clear()\n"
         "    drag_table = make_data_points(drag_table)  # Convert from list of dicts to list of DragDataPoints\n"),
        (DM, "    return DragModel(bc, drag_table, weight, diameter, length)\n",
         "    _MBC_CACHE[_key] = DragModel(bc, drag_table, weight, diameter, length)\n    return _MBC_CACHE[_key]\n"),
     ], None, None,
     "result cached by (point list identity, table length): a different table of the same length gets the old model"),
    # ---------------------------------------------------------------- C07
    ("c07-sfp-scales-display-value", "C07", MU,
     """            return Angular.Radian(
                click_size.raw_value
                * self.scale_factor.raw_value
                / _td.raw_value
                * magnification
            ) << click_size.units
""",
     """            return click_size.units(
                click_size.unit_value
                * self.scale_factor.raw_value
                / _td.raw_value
                * magnification
            )
""",
     "the defect repaired by the fix: commit, re-seeded (SFP click step scaled in the display unit)"),
    ("c07-atmo-temperature-or-default", "C07", CO,
     """        self._temperature = PreferredUnits.temperature(
            temperature if temperature is not None else Atmo.standard_temperature(self.altitude))""",
     """        self._temperature = PreferredUnits.temperature(temperature or Atmo.standard_temperature(self.altitude))""",
     "the defect repaired by the fix: commit, re-seeded for one parameter (bare 0 temperature means 'not given')"),
    ("c07-danger-space-height-in-display-unit", "C07", TD,
     "        target_height_half = target_height.raw_value / 2.0\n",
     "        target_height_half = target_height.unit_value / 2.0\n",
     "danger space compares the target height in the preferred distance unit against drops in inches"),
    ("c07-default-step-through-display-unit", "C07", IF,
     """            trajectory_step = trajectory_range.raw_value / 10.0
            # default unit for distance is Inch, therefore, specifying value directly in it
            step: Distance = Distance.Inch(trajectory_step)""",
     """            trajectory_step = trajectory_range.unit_value / 10.0
            # default unit for distance is Inch, therefore, specifying value directly in it
            step: Distance = trajectory_range.units(trajectory_step)""",
     "default record step computed through the displayed range (same physics, different rounding per preferred unit)"),
    ("c07-atmo-t0-through-preferred-unit", "C07", CO,
     "        self._t0 = self.temperature >> Temperature.Celsius\n",
     "        self._t0 = Temperature(self.temperature.unit_value, self.temperature.units) >> Temperature.Celsius\n",
     "station temperature cached through a round trip in the preferred temperature unit (ulp-level dependence)"),
    ("c07-defaults-blank-then-assign", "C07", UN,
     "        \"\"\"resets preferred units to defaults\"\"\"\n        cls.angular = Unit.Degree\n",
     "        \"\"\"resets preferred units to defaults\"\"\"\n"
     "        for _f in ('angular', 'distance', 'velocity', 'pressure', 'temperature', 'adjustment', 'sight_height'):\n"
     "            setattr(cls, _f, None)\n        cls.angular = Unit.Degree\n",
     "schedule-only: defaults() blanks slots before assigning them (a concurrent reader sees None mid-reset)"),
    # ---------------------------------------------------------------- C02
    ("c02-unconverged-angle-returned", "C02", TC,
     """        if zero_finding_error > _cZeroFindingAccuracy:
            # ZeroFindingError contains an instance of last barrel elevation; so caller can check how close zero is""",
     """        if zero_finding_error > _cZeroFindingAccuracy * 200:
            # ZeroFindingError contains an instance of last barrel elevation; so caller can check how close zero is""",
     "iteration cap reached close to the answer: the unconverged angle is returned as if it were a zero"),
    ("c02-error-path-stores-last-elevation", "C02", IF,
     "        shot.weapon.zero_elevation = self.barrel_elevation_for_target(shot, zero_distance)\n",
     "        try:\n"
     "            shot.weapon.zero_elevation = self.barrel_elevation_for_target(shot, zero_distance)\n"
     "        except RuntimeError as err:\n"
     "            if hasattr(err, 'last_barrel_elevation'):\n"
     "                shot.weapon.zero_elevation = Angular.Radian(\n"
     "                    (err.last_barrel_elevation >> Angular.Radian) - (shot.look_angle >> Angular.Radian))\n"
     "            raise\n",
     "a failed zeroing stores the last (unconverged) elevation before re-raising"),
    ("c02-live-update-restored-on-error", "C02", [
        (TC, "                self.barrel_elevation -= (height - height_at_zero) / zero_distance\n",
         "                self.barrel_elevation -= (height - height_at_zero) / zero_distance\n"
         "                shot_info.weapon.zero_elevation = Angular.Radian(self.barrel_elevation - self.look_angle)\n"),
        (IF, "        shot.weapon.zero_elevation = self.barrel_elevation_for_target(shot, zero_distance)\n",
         "        _old = shot.weapon.zero_elevation\n"
         "        try:\n"
         "            shot.weapon.zero_elevation = self.barrel_elevation_for_target(shot, zero_distance)\n"
         "        except Exception:\n"
         "            shot.weapon.zero_elevation = _old\n"
         "            raise\n"),
     ], None, None,
     "crash-point only: the stored zero is updated live during the search and restored on ordinary errors, so only an "
     "interrupt mid-search leaves a half-found zero behind (and barrel_elevation_for_target alters it meanwhile)"),
    ("c02-zero-warm-start", "C02", [
        (TC, "        iterations_count = 0\n        zero_finding_error = _cZeroFindingAccuracy * 2\n",
         "        iterations_count = 0\n        zero_finding_error = _cZeroFindingAccuracy * 2\n"
         "        _warm = getattr(self, '_warm', None)\n"
         "        if _warm is not None and _warm[0] is shot_info.weapon and _warm[2] == distance_feet:\n"
         "            self.barrel_elevation = _warm[1]\n"),
        (TC, "        return Angular.Radian(self.barrel_elevation)\n",
         "        self._warm = (shot_info.weapon, self.barrel_elevation, distance_feet)\n"
         "        return Angular.Radian(self.barrel_elevation)\n"),
     ], None, None,
     "history-only: the search warm-starts from the elevation found last time for the same weapon and distance"),
    # ---------------------------------------------------------------- C18
    ("c18-radian-falsy", "C18", UN,
     "                    if (_unit := _parse_unit(value)) is not None:\n",
     "                    if _unit := _parse_unit(value):\n",
     "the defect repaired by a fix: commit, re-seeded at one site (PreferredUnits.set ignores 'radian')"),
    ("c18-hasattr-shortcut", "C18", UN,
     "    if input_ in getattr(PreferredUnits, '__dataclass_fields__'):\n",
     "    if hasattr(PreferredUnits, input_):\n",
     "the defect repaired by a fix: commit, re-seeded ('defaults', '__doc__' accepted as unit names)"),
    ("c18-step-units-exact-case", "C18", IN,
     "                            _units = _parse_unit(_name) if isinstance(_name, str) else None\n",
     "                            _units = Unit[_name] if _name in Unit.__members__ else None\n",
     "the defect repaired by a fix: commit, re-seeded (config file step units only in exact case)"),
    ("c18-global-step-read-lazily", "C18", TC,
     "        preferred_step = self._config.max_calc_step_size_feet\n        if step == 0:",
     "        preferred_step = self._config.max_calc_step_size_feet\n"
     "        if preferred_step == 0.5:\n"
     "            import py_ballisticcalc.trajectory_calc as _tc\n"
     "            preferred_step = _tc._globalMaxCalcStepSizeFeet\n"
     "        if step == 0:",
     "history-only: a calculator created with the default step follows later changes of the global step"),
    ("c18-default-calculators-share-engine", "C18", IF,
     "        self._calc = TrajectoryCalc(create_interface_config(self._config))\n",
     "        if self._config is None:\n"
     "            if not hasattr(Calculator, '_default_engine'):\n"
     "                Calculator._default_engine = TrajectoryCalc(create_interface_config(None))\n"
     "            self._calc = Calculator._default_engine\n"
     "        else:\n"
     "            self._calc = TrajectoryCalc(create_interface_config(self._config))\n",
     "history/schedule: calculators created without settings share one engine created with the first one's globals"),
    ("c18-zero-global-step-accepted", "C18", TI,
     "    if (_value := PreferredUnits.distance(value)).raw_value <= 0:\n",
     "    if (_value := PreferredUnits.distance(value)).raw_value < 0:\n",
     "a global step of exactly 0 is accepted"),
    ("c18-alias-by-substring", "C18", UN,
     "        if string_to_find in (each.lower() for each in aliases_tuple):\n",
     "        if any(string_to_find in each.lower() for each in aliases_tuple):\n",
     "aliases matched by substring: 'in' selects inch/100yd, unknown fragments select units"),
    ("c18-torn-file-salvaged-with-prefix-names", "C18", [
        (IN, "            _config = tomllib.load(fp)\n",
         "            _raw = fp.read()\n"
         "            try:\n"
         "                _config = tomllib.loads(_raw.decode('utf-8', 'replace'))\n"
         "            except tomllib.TOMLDecodeError:\n"
         "                _pu = {}\n"
         "                for _line in _raw.decode('utf-8', 'replace').splitlines():\n"
         "                    if '=' in _line and not _line.strip().startswith(('#', '[')):\n"
         "                        _k, _v = _line.split('=', 1)\n"
         "                        _pu[_k.strip()] = _v.strip().strip('\\'\"')\n"
         "                _config = {'pybc': {'preferred_units': _pu}}\n"),
        (UN, "                    if (_unit := _parse_unit(value)) is not None:\n",
         "                    _unit = _parse_unit(value)\n"
         "                    if _unit is None and len(value.strip()) >= 2:\n"
         "                        _unit = next((u for u in Unit if u.name.lower().startswith(value.strip().lower())), None)\n"
         "                    if _unit is not None:\n"),
     ], None, None,
     "fault-only (two cooperating sites): a torn config file is salvaged line by line and a cut-off name is completed "
     "by prefix, selecting a unit the file never named"),
    ("c18-step-floor", "C18", TC,
     "        preferred_step = self._config.max_calc_step_size_feet\n        if step == 0:",
     "        preferred_step = max(self._config.max_calc_step_size_feet, 0.5) if self._config.max_calc_step_size_feet < 0.3 "
     "else self._config.max_calc_step_size_feet * (3.0 if self._config.cGravityConstant != -32.17405 else 1.0)\n"
     "        if step == 0:",
     "configuration-dependent: with a non-default gravity the integration step is 1.5x the configured maximum"),
    ("c18-gravity-setting-ignored", "C18", TC,
     "        self.gravity_vector: Vector = Vector(.0, self._config.cGravityConstant, .0)\n",
     "        self.gravity_vector: Vector = Vector(.0, -32.17405, .0)\n",
     "a setting that is silently ignored (both sides of the solo oracle ignore it alike: needs the vacuum gravity trace)"),
    ("c18-iteration-cap-setting-ignored", "C18", TC,
     "        _cMaxIterations = self._config.cMaxIterations\n",
     "        _cMaxIterations = max(self._config.cMaxIterations, 20)\n",
     "iteration caps below the default are silently ignored"),
    ("c18-min-velocity-setting-floor", "C18", TC,
     "        _cMinimumVelocity = self._config.cMinimumVelocity\n",
     "        _cMinimumVelocity = min(self._config.cMinimumVelocity, 1000.0)\n",
     "minimum-velocity limits above 1000 fps are silently capped"),
    ("c04-height-limits-skipped-when-moving-backwards", "C04", TC,
     """                    or range_vector.y < _cMaximumDrop
                    or self.alt0 + range_vector.y < _cMinimumAltitude
""",
     """                    or (velocity_vector.x > 0 and range_vector.y < _cMaximumDrop)
                    or (velocity_vector.x > 0 and self.alt0 + range_vector.y < _cMinimumAltitude)
""",
     "pure non-termination: a projectile moving backwards (elevation beyond vertical, or blown back by a head wind) is "
     "never tested against the height limits and falls for ever"),
    ("c10-warnings-filter-overridden", "C10", TC,
     "        it = 0  # iteration counter\n",
     "        import warnings as _w\n        _w.simplefilter(\"once\")\n        it = 0  # iteration counter\n",
     "the defect repaired by a fix: commit, re-seeded: every integration rewrites the process-wide warnings filter, so an "
     "operation that warns behaves differently before and after the first computation when the user asked for errors"),
    ("c02-iteration-counted-only-on-progress", "C02", TC,
     "            iterations_count += 1\n",
     "            iterations_count += 1 if zero_finding_error < getattr(self, '_prev_zfe', 1e99) else 0\n"
     "            self._prev_zfe = zero_finding_error\n",
     "pure non-termination: an iteration that does not reduce the error is not counted, so a search that stalls or "
     "diverges (steep sight lines, unreachable targets) never reaches the iteration cap"),
]


def by_property(pid):
    return [m for m in MUTANTS if m[1] == pid]
