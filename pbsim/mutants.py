"""Seeded defects for the sensitivity self-test: (id, property, file, old, new, note).

Each is a textual replacement inside a scratch copy of the package (never in /repo).  `old` must occur exactly once.
A defect belongs here only if the mutated tree still imports and (checked separately, see DESIGN section 9) passes
the repository's 108 baseline tests."""

TC = "py_ballisticcalc/trajectory_calc/_trajectory_calc.py"
UN = "py_ballisticcalc/unit.py"
DM = "py_ballisticcalc/drag_model.py"
IF = "py_ballisticcalc/interface.py"
IC = "py_ballisticcalc/interface_config.py"
CO = "py_ballisticcalc/conditions.py"
TD = "py_ballisticcalc/trajectory_data/_trajectory_data.py"
IN = "py_ballisticcalc/__init__.py"
TI = "py_ballisticcalc/trajectory_calc/__init__.py"
EX = "py_ballisticcalc/exceptions/exceptions.py"
MU = "py_ballisticcalc/munition.py"

MUTANTS = [
    # ---------------------------------------------------------------- C04
    ("c04-precedence-swapped", "C04", TC,
     """                if velocity < _cMinimumVelocity:
                    reason = RangeError.MinimumVelocityReached
                elif range_vector.y < _cMaximumDrop:
                    reason = RangeError.MaximumDropReached
                else:
                    reason = RangeError.MinimumAltitudeReached""",
     """                if range_vector.y < _cMaximumDrop:
                    reason = RangeError.MaximumDropReached
                elif velocity < _cMinimumVelocity:
                    reason = RangeError.MinimumVelocityReached
                else:
                    reason = RangeError.MinimumAltitudeReached""",
     "reason precedence swapped (needs two limits violated in the same step)"),
    ("c04-terminal-row-omitted", "C04", TC,
     """                ranges.append(create_trajectory_row(
                    time, range_vector, velocity_vector,
                    velocity, mach, self.spin_drift(time), self.look_angle,
                    density_factor, drag, self.weight, data_filter.current_flag
                ))
                if velocity < _cMinimumVelocity:""",
     """                if len(ranges) < 1:
                  ranges.append(create_trajectory_row(
                    time, range_vector, velocity_vector,
                    velocity, mach, self.spin_drift(time), self.look_angle,
                    density_factor, drag, self.weight, data_filter.current_flag
                  ))
                if velocity < _cMinimumVelocity:""",
     "terminal (violating) row no longer appended once a row exists: last row does not violate the limit"),
    ("c04-last-distance-first-row", "C04", EX,
     "            self.last_distance = ranges[-1].distance",
     "            self.last_distance = ranges[0].distance if len(ranges) > 3 else ranges[-1].distance",
     "last_distance taken from the first row for longer partial trajectories"),
    ("c04-altitude-skipped-at-x0", "C04", TC,
     "                    or self.alt0 + range_vector.y < _cMinimumAltitude\n",
     "                    or (range_vector.x > 1e-3 and self.alt0 + range_vector.y < _cMinimumAltitude)\n",
     "altitude limit not tested while x ~ 0 (vertical / zero-velocity launches fall through the floor)"),
    ("c04-abort-one-step-late", "C04", TC,
     """            if (
                    velocity < _cMinimumVelocity
                    or range_vector.y < _cMaximumDrop""",
     """            if (
                    velocity < _cMinimumVelocity - (0.35 if time > 1.5 else 0.0)
                    or range_vector.y < _cMaximumDrop""",
     "velocity limit applied with a hidden margin late in flight: an earlier row already violates the limit"),
    ("c04-drop-uses-stale-limit", "C04", TC,
     "        _cMaximumDrop = self._config.cMaximumDrop\n",
     "        _cMaximumDrop = min(self._config.cMaximumDrop, -5.0)\n",
     "drop limits tighter than -5 ft silently ignored"),
]


def by_property(pid):
    return [m for m in MUTANTS if m[1] == pid]
