"""Run a function in a forked child of the current (pristine, warmed-up) process and get its JSON result back.

The parent never executes library code itself, so every child starts from the identical image: this is what makes
trace-event counts a function of the run alone (DESIGN section 5).  A wall-clock limit exists only to stop the
harness; hitting it is reported as a harness error, never as pass or violation."""
import faulthandler
import json
import os
import select
import signal
import sys
import time
import traceback


class ForkError(Exception):
    """harness-level failure of a child (timeout, crash, unparsable result)"""


def run_in_fork(fn, args=(), timeout=300.0):
    # a pending dump_traceback_later watchdog thread does not survive fork, but its lock does: re-arming it in the
    # child would then block for ever.  Cancel it here (where the thread still exists) before forking.
    faulthandler.cancel_dump_traceback_later()
    r, w = os.pipe()
    sys.stdout.flush()
    sys.stderr.flush()
    pid = os.fork()
    if pid == 0:
        # ---- child
        code = 0
        try:
            os.close(r)
            faulthandler.enable()
            faulthandler.dump_traceback_later(max(5.0, timeout - 2.0), exit=False)
            try:
                res = {"ok": fn(*args)}
            except BaseException:  # noqa - report everything, including SystemExit
                res = {"harness_exc": traceback.format_exc()[-4000:]}
            data = json.dumps(res).encode()
            faulthandler.cancel_dump_traceback_later()
            with os.fdopen(w, "wb") as f:
                f.write(data)
        except BaseException:
            code = 3
        finally:
            os._exit(code)
    # ---- parent
    os.close(w)
    chunks = []
    deadline = time.monotonic() + timeout
    timed_out = False
    try:
        while True:
            left = deadline - time.monotonic()
            if left <= 0:
                timed_out = True
                break
            rl, _, _ = select.select([r], [], [], min(left, 5.0))
            if rl:
                b = os.read(r, 1 << 20)
                if not b:
                    break
                chunks.append(b)
    finally:
        os.close(r)
    if timed_out:
        try:
            os.kill(pid, signal.SIGKILL)
        except ProcessLookupError:
            pass
        os.waitpid(pid, 0)
        raise ForkError(f"child exceeded wall limit of {timeout}s (harness watchdog)")
    _, status = os.waitpid(pid, 0)
    data = b"".join(chunks)
    if not data:
        raise ForkError(f"child died without result, wait status {status}")
    try:
        res = json.loads(data)
    except ValueError as e:
        raise ForkError(f"unparsable child result: {e}")
    if "harness_exc" in res:
        raise ForkError("child raised:\n" + res["harness_exc"])
    return res["ok"]
