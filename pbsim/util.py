"""Small helpers shared by the whole engine: seed derivation, bit-exact float text, JSON, hashing."""
import hashlib
import json
import random
import re

_ADDR = re.compile(r"0x[0-9a-fA-F]+")


def derive_seed(base: int, prop: str, index: int, salt: str = "") -> int:
    """seed_i = H(VERIF_SEED, property, i[, salt]) - 63 bit."""
    h = hashlib.sha256(f"{base}:{prop}:{index}:{salt}".encode()).digest()
    return int.from_bytes(h[:8], "big") >> 1


def rng_for(seed: int, stream: str = "") -> random.Random:
    """Independent PRNG stream derived from one run seed (program / schedule / faults use separate streams so that
    shrinking one does not reshuffle the others)."""
    h = hashlib.sha256(f"{seed}/{stream}".encode()).digest()
    return random.Random(int.from_bytes(h[:8], "big"))


def fhex(x) -> str:
    """Bit-exact text of a float (ints/bools kept apart so 1 != 1.0 is visible)."""
    if isinstance(x, bool):
        return "b%d" % x
    if isinstance(x, int):
        return "i%d" % x
    if isinstance(x, float):
        return x.hex()
    if x is None:
        return "None"
    return "?" + type(x).__name__


def unhex(s: str) -> float:
    return float.fromhex(s)


def jdump(obj) -> str:
    return json.dumps(obj, sort_keys=True, separators=(",", ":"))


def sha(obj) -> str:
    if not isinstance(obj, (bytes, str)):
        obj = jdump(obj)
    if isinstance(obj, str):
        obj = obj.encode()
    return hashlib.sha256(obj).hexdigest()


def strip_addr(msg: str) -> str:
    return _ADDR.sub("0x?", msg)


def geometric(rng: random.Random, mean: float) -> int:
    """Geometric(>=1) with the given mean."""
    if mean <= 1:
        return 1
    p = 1.0 / mean
    # inverse CDF; rng.random() in [0,1)
    import math
    u = 1.0 - rng.random()
    return max(1, int(math.log(u) / math.log(1.0 - p)) + 1)
