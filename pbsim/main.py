"""Entry point: `python -m pbsim.main ...` (this module holds no state, so being loaded as __main__ is harmless)."""
import sys

from pbsim.runner import main

if __name__ == "__main__":
    sys.exit(main())
