"""One simulated run: build the world, run the task programs under the scheduler with faults, take snapshots at
every operation boundary (O2), and return the recorded history (plain JSON).  Executed in a forked child."""
import logging

from pbsim import gen, lib
from pbsim.digest import snap, snap_globals, snap_tables
from pbsim.ops import ADMIN_OPS, Ctx, outcome_exc, outcome_ok, perform
from pbsim.sched import BudgetExceeded, LiteralDecider, PrngDecider, Sim, SimInterrupt
from pbsim.util import fhex, rng_for, sha
from pbsim.world import Builder

POOL_KINDS = ("tables", "dms", "ammos", "weapons", "atmos", "winds", "windlists", "shots", "sights")
EST_EVENTS_PER_OP = {"line": 60000, "cold": 900, "step": 2500, "none": 2}


def op_step_budget(op, world):
    """Deterministic per-operation budget of integration steps: generous multiple of a path bound."""
    k = op.get("op")
    if k not in ("fire", "zero", "elev"):
        return 2_000_000
    cfgs = world.get("calcs", [])
    cfg = (cfgs[op["calc"]].get("config") or {}) if op.get("calc") is not None and op["calc"] < len(cfgs) else {}
    step = cfg.get("max_calc_step_size_feet", 0.25)
    step = min(step, 0.25) if "max_calc_step_size_feet" not in cfg else step   # global step may be anything >= tiny
    calc_step = max(step / 2.0, 0.01)
    spec = op.get("range") or op.get("dist")
    if isinstance(spec, dict):
        feet = abs(spec.get("bare", 1000.0)) * 6000.0        # bare number in an unknown unit: assume the largest
    else:
        feet = abs(gen.to_feet(spec))
    fall = abs(cfg.get("cMaximumDrop", -15000.0))
    iters = 1 if k == "fire" else (int(cfg.get("cMaxIterations", 20)) + 2)
    return min(1_500_000, int(iters * (64 * (feet + fall + 100.0) / calc_step + 20000)))


class Snapshots:
    """O2: structural snapshots of every pool object, shipped tables and globals at every operation boundary."""

    def __init__(self, builder, world, programs):
        self.b = builder
        self.world = world
        self.programs = programs
        self.prev = None
        self.inflight = {}
        self.violations = []
        self.count = 0

    def take(self):
        out = {}
        for (kind, i), obj in list(self.b.cache.items()):
            if kind == "calcs":
                c = getattr(getattr(obj, "_calc", None), "_config", None)
                out[f"calcs[{i}].config"] = sha(snap(c._asdict() if hasattr(c, "_asdict") else c))
                continue
            if kind == "tables" or kind == "windlists":
                out[f"{kind}[{i}]"] = sha(snap(obj) if kind == "tables" else [id(x) for x in obj])
                continue
            d = getattr(obj, "__dict__", None)
            if d is None:
                out[f"{kind}[{i}]"] = sha(snap(obj))
                continue
            for f in sorted(d):
                if f == "_initializing":
                    continue
                v = d[f]
                if f in ("weapon", "ammo", "atmo", "dm", "sight") and hasattr(v, "__dict__"):
                    out[f"{kind}[{i}].{f}"] = "id%d" % id(v)       # references: identity, the target has its own key
                elif f == "_winds":
                    out[f"{kind}[{i}].{f}"] = sha([id(x) for x in v]) if isinstance(v, list) else sha(snap(v))
                else:
                    out[f"{kind}[{i}].{f}"] = sha(snap(v))
        for k, q in sorted(self.b.qcache.items()):
            out[f"qpool[{k}]"] = sha(snap(q))               # quantity instances the caller passed in and still holds
        for n, t in snap_tables().items():
            out["shipped." + n] = sha(t)
        g = snap_globals()
        for s, u in g["slots"].items():
            out["globals.slots." + s] = u
        out["globals.gstep"] = g["gstep"]
        return out

    @staticmethod
    def permits(op, world):
        k = op.get("op")
        if k == "zero":
            return {f"weapons[{world['shots'][op['shot']]['weapon']}].zero_elevation"}
        if k == "powder":
            return {f"ammos[{op['ammo']}].temp_modifier"}
        if k == "edit":
            f = "drag_table" if op["field"].startswith("CD@") else op["field"]
            if op["kind"] == "atmos" and f == "humidity":
                # the property setter stores the value and refreshes what is derived from it
                return {f"atmos[{op['index']}].{x}" for x in ("humidity", "_humidity", "_density_ratio")}
            return {f"{op['kind']}[{op['index']}].{f}"}
        if k in ADMIN_OPS:
            return {"globals."}
        return set()

    def boundary(self, sim, t, i, phase):
        now = self.take()
        self.count += 1
        if self.prev is not None:
            changed = [k for k in now if k in self.prev and self.prev[k] != now[k]]
            if changed:
                allowed = set()
                for (ti, op) in self.inflight.values():
                    allowed |= self.permits(op, self.world)
                for k in changed:
                    if k in allowed or any(a.endswith(".") and k.startswith(a) for a in allowed):
                        continue
                    kinds = sorted({op.get("op") for (_, op) in self.inflight.values()})
                    self.violations.append({"invariant": "O2.mutation", "key": _norm_key(k), "raw_key": k,
                                            "ops_in_flight": kinds, "task": t.idx, "op": i})
        self.prev = now
        if phase == "start":
            self.inflight[t.idx] = (t.idx, t.program[i])
        else:
            self.inflight.pop(t.idx, None)


def _norm_key(k):
    import re
    return re.sub(r"\[\d+\]", "", k)


def make_decider(spec, ntasks, nops):
    cfg = spec["config"]
    if spec.get("schedule") is not None:
        return LiteralDecider(spec["schedule"])
    rng = rng_for(spec["seed"], "schedule")
    est = max(10, nops * EST_EVENTS_PER_OP.get(cfg["mode"], 1000))
    return PrngDecider(rng, cfg.get("policy", "uniform"), cfg.get("mean_run", 50), est, ntasks,
                       pct_depth=cfg.get("pct_depth", 2))


def simulate(spec):
    """spec: {seed, world, programs, roles?, config{mode,policy,mean_run,opcode}, faults[], schedule?}"""
    lib.reset_globals()
    logging.raiseExceptions = False
    world = spec["world"]
    programs = spec["programs"]
    b = Builder(world, shared=True, seam=True)
    pre_exc = None
    for kind in POOL_KINDS:
        for i in range(len(world.get(kind, []))):
            getattr(b, kind[:-1] if kind != "windlists" else "windlist")(i)
    ctxs = [Ctx(b) for _ in programs]
    snaps = Snapshots(b, world, programs)
    nops = sum(len(p) for p in programs)
    globals_at = [[None] * len(p) for p in programs]
    post = [[None] * len(p) for p in programs]
    # the USER's warnings-filter setting (what the admin task last asked for; the harness default is "ignore") in force
    # at the start of every operation, and whether a change of it overlapped the operation
    userfilter_at = [[None] * len(p) for p in programs]
    filter_unstable = [[False] * len(p) for p in programs]
    uf = {"current": "ignore", "changing": 0, "running": {}}

    def exec_op(t, op):
        ctx = ctxs[t.idx]
        op2 = dict(op, _idx=t.op_idx)
        try:
            res = perform(op2, ctx)
        except (SimInterrupt, BudgetExceeded):
            t.harness = 1
            raise
        except MemoryError as e:
            t.harness = 1
            if t.fired is not None:
                raise
            return outcome_exc(e)
        except Exception as e:  # noqa: the library's own exceptions are results
            t.harness = 1
            return outcome_exc(e)
        t.harness = 1
        return outcome_ok(res)

    def on_boundary(sim, t, i, phase):
        op = t.program[i]
        if phase == "start":
            globals_at[t.idx][i] = snap_globals()
            t.step_budget = op_step_budget(op, world)
            userfilter_at[t.idx][i] = uf["current"]
            if op.get("op") == "warn_filter":
                uf["changing"] += 1
                for (tj, j) in uf["running"]:
                    filter_unstable[tj][j] = True
            else:
                uf["running"][(t.idx, i)] = True
                if uf["changing"]:
                    filter_unstable[t.idx][i] = True
        else:
            if op.get("op") == "warn_filter":
                uf["changing"] -= 1
                uf["current"] = op["action"]
            else:
                uf["running"].pop((t.idx, i), None)
            if op.get("op") in ("zero", "elev", "fire"):
                w = b.cache.get(("weapons", world["shots"][op["shot"]]["weapon"]))
                ze = getattr(w, "zero_elevation", None)
                post[t.idx][i] = {"zero": float(ze.raw_value).hex() if hasattr(ze, "raw_value") else repr(ze)}
            elif op.get("op") == "powder":
                a = b.cache.get(("ammos", op["ammo"]))
                tm = getattr(a, "temp_modifier", None)
                post[t.idx][i] = {"tm": fhex(float(tm)) if isinstance(tm, (int, float)) else repr(tm)}
        snaps.boundary(sim, t, i, phase)

    cfg = spec["config"]
    sim = Sim(programs, exec_op, make_decider(spec, len(programs), nops), mode=cfg["mode"],
              opcode=cfg.get("opcode", False), faults=spec.get("faults"), on_boundary=on_boundary,
              roles={int(k): v for k, v in (spec.get("roles") or {}).items()})
    sim.record_where_task = spec.get("record_where_task")
    sim.run()
    results = [t.results for t in sim.tasks]
    return {
        "where_log": sim.where_log,
        "results": results, "globals_at": globals_at, "post": post, "o2": snaps.violations,
        "userfilter_at": userfilter_at, "filter_unstable": filter_unstable,
        "schedule": sim.schedule, "faults_fired": sim.fault_fired, "events": sim.events, "steps": sim.steps,
        "switches": sim.switches, "overlap": sorted([[a, c, n] for (a, c), n in sim.overlap.items()]),
        "touch_calls": sim.touch_calls, "snapshots": snaps.count,
        "log_sha": sha([list(x) for x in sim.log]), "harness_errors": sim.harness_errors,
        "digest": sha([[list(x) for x in sim.log], results, post]),
        "final_globals": snap_globals(),
    }
