"""Bit-exact digests of results and structural snapshots of objects.

Everything is compared on base-unit magnitudes (`raw_value`); display units are recorded separately and never
compared unless a property says so.  The functions here read attributes directly and call no library *functions*
except trivial property getters, and callers run them in harness mode (untraced)."""
from pbsim import lib
from pbsim.util import fhex, strip_addr


def _isq(x):
    return isinstance(x, lib.pb.AbstractDimension)


def rawhex(q):
    """magnitude of a quantity, bit-exact; an int magnitude (Distance(0, ...)) is the same magnitude as the float"""
    v = q.raw_value
    if isinstance(v, (int, float)) and not isinstance(v, bool):
        return float(v).hex()
    return fhex(v)


def dq(q):
    """quantity -> [dimension initial, raw hex]"""
    if q is None:
        return None
    return [type(q).__name__, rawhex(q)]


def drow(row):
    out = []
    for v in row:
        if _isq(v):
            out.append(rawhex(v))
        else:
            out.append(fhex(v) if isinstance(v, (float, int)) else repr(v))
    return out


def drows(rows):
    return [drow(r) for r in rows]


def dexc(e):
    pb = lib.pb
    if isinstance(e, pb.RangeError):
        return {"exc": "RangeError", "reason": e.reason, "rows": drows(e.incomplete_trajectory),
                "last_distance": dq(e.last_distance)}
    if isinstance(e, pb.ZeroFindingError):
        return {"exc": "ZeroFindingError", "error": fhex(e.zero_finding_error), "iterations": e.iterations_count,
                "last": dq(e.last_barrel_elevation)}
    # the message is not part of the digest: it may embed a quantity formatted in its display unit (display units
    # are free) or an object address
    return {"exc": type(e).__name__}


def dvalue(v):
    """generic result digest"""
    pb = lib.pb
    if v is None or isinstance(v, (bool, str)):
        return v
    if isinstance(v, (int, float)) and not isinstance(v, pb.Unit):
        return fhex(v)
    if _isq(v):
        return dq(v)
    if isinstance(v, pb.Unit):
        return "U." + v.name
    if isinstance(v, pb.HitResult):
        return {"rows": drows(v.trajectory), "extra": bool(v.extra)}
    if isinstance(v, pb.TrajectoryData):
        return drow(v)
    if isinstance(v, pb.DangerSpace):
        return {"at": drow(v.at_range), "h": dq(v.target_height), "begin": drow(v.begin), "end": drow(v.end),
                "look": dq(v.look_angle)}
    if isinstance(v, (list, tuple)):
        return [dvalue(x) for x in v]
    if isinstance(v, dict):
        return {str(k): dvalue(x) for k, x in sorted(v.items(), key=lambda kv: str(kv[0]))}
    return snap(v)


# ---------------------------------------------------------------------------------------------------------------
# structural snapshots (O2)

_SKIP_ATTRS = {"_initializing"}


def snap(obj, units=False, _seen=None, _depth=0):
    """Structure of `obj` with every float bit-exact.  Quantities -> ('Q', class, raw hex[, unit]).
    Library objects are walked through __dict__/__slots__; cycles and shared sub-objects are cut by id."""
    pb = lib.pb
    if _seen is None:
        _seen = {}
    if obj is None or isinstance(obj, (bool, str)):
        return obj
    if isinstance(obj, pb.Unit):
        return "U." + obj.name
    if isinstance(obj, (int, float)):
        return fhex(obj)
    if _isq(obj):
        r = ["Q", type(obj).__name__, rawhex(obj)]
        if units:
            r.append(obj._defined_units.name if isinstance(obj._defined_units, pb.Unit) else repr(obj._defined_units))
        return r
    if _depth > 12:
        return "<deep>"
    if isinstance(obj, (list, tuple)):
        return [snap(x, units, _seen, _depth + 1) for x in obj]
    if isinstance(obj, dict):
        return {str(k): snap(v, units, _seen, _depth + 1) for k, v in sorted(obj.items(), key=lambda kv: str(kv[0]))}
    oid = id(obj)
    if oid in _seen:
        return "<ref %d>" % _seen[oid]
    _seen[oid] = len(_seen)
    d = getattr(obj, "__dict__", None)
    if d is None:
        return "<%s>" % type(obj).__name__
    cn = type(obj).__name__
    out = {"__class__": cn[4:] if cn.startswith("_Sim") else cn[3:] if cn in ("SimAtmo", "SimVacuum") else cn}
    for k in sorted(d):
        if k in _SKIP_ATTRS or callable(d[k]):
            continue
        out[k] = snap(d[k], units, _seen, _depth + 1)
    return out


def snap_globals():
    """PreferredUnits slots, global step, (debug flag)."""
    pb = lib.pb
    from pbsim.names import SLOT_NAMES
    slots = {}
    for s in SLOT_NAMES:
        v = getattr(pb.PreferredUnits, s, None)
        slots[s] = v.name if isinstance(v, pb.Unit) else "!" + repr(v)[:60]
    return {"slots": slots, "gstep": fhex(lib.global_step_feet())}


def snap_tables():
    from pbsim.names import SHIPPED_TABLES
    return {n: [[fhex(p["Mach"]), fhex(p["CD"])] for p in getattr(lib.pb, n)] for n in SHIPPED_TABLES}
