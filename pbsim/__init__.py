"""pbsim - deterministic simulation with fault injection for py-ballisticcalc (see /verif/DESIGN.md)."""
ENGINE_VERSION = "1"
ZYGOTE_WARMUP = "v1"
