"""Check driver: seeds -> pool of pristine workers -> run records -> known-finding matching, minimisation,
replay files, determinism spot check, evidence.

Exit codes: 0 held (KNOWN-FINDING lines allowed) / 1 unlisted violation (VIOLATION line) / 2 harness error."""
import argparse
import concurrent.futures as cf
import importlib
import json
import multiprocessing
import os
import subprocess
import sys
import time
import traceback

from pbsim import ENGINE_VERSION, ZYGOTE_WARMUP, lib
from pbsim.forkrun import ForkError, run_in_fork
from pbsim.util import derive_seed, jdump, sha

VERIF = os.path.dirname(os.path.dirname(os.path.abspath(__file__)))
PROPS = {"C02": "c02", "C04": "c04", "C07": "c07", "C10": "c10", "C13": "c13", "C14": "c14", "C18": "c18"}


def load_prop(pid):
    return importlib.import_module("pbsim.props." + PROPS[pid])


def load_known():
    p = os.path.join(VERIF, "known_findings.json")
    if not os.path.exists(p):
        return []
    with open(p) as f:
        return json.load(f)


def sig_matches(entry_sig, sig):
    """A known entry matches a violation iff every key of the entry's signature is present and equal."""
    return all(sig.get(k) == v for k, v in entry_sig.items())


def _worker_case(pid, seed, tier, idx, wall):
    """Executed in a pool worker.  The worker itself never runs library code: prop.run_case forks."""
    mod = load_prop(pid)
    t0 = time.monotonic()
    try:
        try:
            rec = mod.run_case(seed, tier, idx)
        except ForkError as e:
            if "wait status 11" not in str(e):
                raise
            # interpreter crash in the child (see sched.py): one retry at line granularity, and say so
            os.environ["PBSIM_NO_OPCODE"] = "1"
            try:
                rec = mod.run_case(seed, tier, idx)
                rec["retried_after_interpreter_crash"] = True
            finally:
                os.environ.pop("PBSIM_NO_OPCODE", None)
    except ForkError as e:
        rec = {"seed": seed, "harness_error": str(e)}
    except Exception:
        rec = {"seed": seed, "harness_error": traceback.format_exc()[-3000:]}
    rec["seed"] = seed
    rec["idx"] = idx
    # re-observe every violation at once, in the discovering worker (same process lineage, same allocator history):
    # needed for failures that depend on object addresses, which a fresh interpreter does not reproduce
    for v in (rec.get("violations") or [])[:3]:
        rep = v.get("replay")
        if rep is None or "harness_error" in rec:
            continue
        k = 0
        for _ in range(2):
            try:
                r2 = mod.replay_case(rep)
                k += any(v2["sig"] == v["sig"] for v2 in r2.get("violations", []))
            except Exception:  # noqa
                pass
        v["reobserved_in_worker"] = k
    rec["wall"] = time.monotonic() - t0
    return rec


def run_batch(pid, seeds, tier, workers, wall_budget=None, progress=None):
    """Run cases for the given (idx, seed) list on a fork pool.  With wall_budget, stop submitting when it is used
    up (thorough tier); already-submitted cases are awaited."""
    ctx = multiprocessing.get_context("fork")
    records = []
    t0 = time.monotonic()
    it = iter(seeds)
    pending = set()
    with cf.ProcessPoolExecutor(max_workers=workers, mp_context=ctx) as ex:
        exhausted = False
        while True:
            while not exhausted and len(pending) < workers * 2:
                if wall_budget is not None and time.monotonic() - t0 > wall_budget:
                    exhausted = True
                    break
                try:
                    idx, seed = next(it)
                except StopIteration:
                    exhausted = True
                    break
                pending.add(ex.submit(_worker_case, pid, seed, tier, idx, None))
            if not pending:
                break
            done, pending = cf.wait(pending, return_when=cf.FIRST_COMPLETED)
            for fu in done:
                records.append(fu.result())
                if progress:
                    progress(records[-1])
    records.sort(key=lambda r: r["idx"])
    return records


def write_replay(pid, rep):
    d = os.path.join(VERIF, "replays")
    os.makedirs(d, exist_ok=True)
    path = os.path.join(d, f"{pid}-{rep.get('seed', 0)}-{sha(rep)[:8]}.json")
    with open(path, "w") as f:
        json.dump(rep, f, indent=1, sort_keys=True)
    return path


def confirm_replay(path):
    """Replay the file in a *fresh interpreter*; True iff it reports the violation again."""
    env = dict(os.environ, PYTHONHASHSEED="0")
    flags = ["-O"] if sys.flags.optimize else []
    p = subprocess.run([sys.executable] + flags + ["-m", "pbsim.main", "--replay", path], cwd=VERIF, env=env,
                       capture_output=True, text=True, timeout=900)
    return p.returncode == 1 and "VIOLATION" in p.stdout, p.stdout[-2000:] + p.stderr[-2000:]


def do_replay(path):
    with open(path) as f:
        rep = json.load(f)
    pid = rep["property"]
    if rep.get("python_optimize") and not sys.flags.optimize:
        # recorded in the pass that runs the interpreter with -O (asserts and `if __debug__:` blocks compiled out)
        os.execv(sys.executable, [sys.executable, "-O", "-m", "pbsim.main", "--replay", path])
    mod = load_prop(pid)
    lib.load()
    lib.warmup()
    rec = mod.replay_case(rep)
    want = rep.get("violation", {}).get("sig")
    found = [v for v in rec.get("violations", []) if want is None or v["sig"] == want]
    print(f"replay property={pid} seed={rep.get('seed')} violations={len(rec.get('violations', []))} "
          f"matching_signature={len(found)}")
    for v in rec.get("violations", [])[:5]:
        print("  ", jdump(v["sig"]), "|", v.get("detail", "")[:300])
    if rep.get("event_log_sha256") and rec.get("digest") and rep["event_log_sha256"] != rec["digest"]:
        print(f"  note: event-log digest differs from the recorded one ({rec['digest'][:12]} vs "
              f"{rep['event_log_sha256'][:12]})")
    if found:
        print(f"VIOLATION property={pid} replay={path}")
        return 1
    return 0


def main(argv=None):
    argv = list(sys.argv[1:] if argv is None else argv)
    if argv and argv[0] == "selftest":
        from pbsim import selftest
        return selftest.main(argv[1:])
    ap = argparse.ArgumentParser(prog="check")
    ap.add_argument("prop", nargs="?")
    ap.add_argument("--tier", default=os.environ.get("VERIF_TIER", "quick"), choices=["quick", "thorough"])
    ap.add_argument("--replay")
    ap.add_argument("--runs", type=int)
    ap.add_argument("--budget", type=float, help="wall seconds for the thorough tier")
    ap.add_argument("--workers", type=int, default=int(os.environ.get("PBSIM_WORKERS", "16")))
    ap.add_argument("--no-evidence", action="store_true")
    ap.add_argument("--no-minimise", action="store_true")
    ap.add_argument("--opt-pass-runs", type=int, help="runs of the additional pass under `python -O` (default: from the plan; 0 = none)")
    ap.add_argument("--evidence-dir", default=os.path.join(VERIF, "evidence"))
    a = ap.parse_args(argv)
    if a.replay:
        return do_replay(a.replay)
    pid = a.prop
    if pid not in PROPS:
        print("unknown property", pid, "claimed:", sorted(PROPS))
        return 2
    t_start = time.monotonic()
    base = int(os.environ.get("VERIF_SEED", "0"))
    print(f"pbsim engine={ENGINE_VERSION} warmup={ZYGOTE_WARMUP} property={pid} tier={a.tier} VERIF_SEED={base} "
          f"repo={lib.REPO} workers={a.workers}", flush=True)
    mod = load_prop(pid)
    lib.load()
    lib.warmup()
    plan = mod.plan(a.tier)
    n = a.runs if a.runs is not None else plan["runs"]
    budget = a.budget if a.budget is not None else plan.get("budget")
    seeds = [(i, derive_seed(base, pid, i)) for i in range(n)]
    harness_errors = []
    viol_records = []

    n_seen = [0]

    def progress(rec):
        n_seen[0] += 1
        if "harness_error" in rec:
            harness_errors.append(rec)
        if rec.get("violations"):
            viol_records.append(rec)
        if n_seen[0] > 8 and not rec.get("violations"):
            rec.pop("sample", None)                 # long thorough runs: keep memory bounded

    phases = {}
    records = run_batch(pid, seeds, a.tier, a.workers, wall_budget=budget, progress=progress)
    phases["explore"] = round(time.monotonic() - t_start, 1)

    # ---- determinism spot check: re-run the first two seeds, compare digests
    det = {"checked": 0, "mismatch": 0}
    if records:
        again = run_batch(pid, [(r["idx"], r["seed"]) for r in records[:2]], a.tier, min(2, a.workers))
        for r0, r1 in zip(records[:2], again):
            det["checked"] += 1
            if r0.get("digest") != r1.get("digest"):
                det["mismatch"] += 1
                harness_errors.append({"seed": r0["seed"], "harness_error":
                                       f"determinism spot check: digest {r0.get('digest')} != {r1.get('digest')}"})

    phases["determinism_spot_check"] = round(time.monotonic() - t_start - sum(phases.values()), 1)
    # ---- known findings: replay the pinned witnesses, match signatures
    known = [k for k in load_known() if k["property"] == pid and k["status"] == "known"]
    known_hit = {}
    for k in known:
        wpath = os.path.join(VERIF, k["witness"]) if k.get("witness") else None
        if wpath and os.path.exists(wpath):
            with open(wpath) as f:
                rep = json.load(f)
            try:
                rec = run_in_fork(_replay_in_child, (pid, rep), timeout=600)
            except ForkError as e:
                harness_errors.append({"seed": rep.get("seed"), "harness_error": f"witness {k['id']}: {e}"})
                continue
            if any(sig_matches(k["signature"], v["sig"]) for v in rec.get("violations", [])):
                known_hit[k["id"]] = k

    # ---- repaired defects: a `fixed` entry suppresses nothing; where its witness was kept it is replayed on every run, and
    # a violation it shows is classified like any other (so a repaired defect that returns is reported)
    regression = {"replayed": 0, "failing": 0}
    for k in load_known():
        if k["property"] != pid or k["status"] != "fixed" or not k.get("witness_kept_for_regression"):
            continue
        wpath = os.path.join(VERIF, k["witness_kept_for_regression"])
        if not os.path.exists(wpath):
            continue
        with open(wpath) as f:
            rep = json.load(f)
        try:
            rec = run_in_fork(_replay_in_child, (pid, rep), timeout=600)
        except ForkError as e:
            harness_errors.append({"seed": rep.get("seed"), "harness_error": f"regression witness {k['id']}: {e}"})
            continue
        regression["replayed"] += 1
        if rec.get("violations"):
            regression["failing"] += 1
            rec.setdefault("seed", rep.get("seed"))
            for v in rec["violations"]:
                v.setdefault("replay", {kk: vv for kk, vv in rep.items() if kk not in ("violation",)})
            viol_records.append(rec)

    # ---- classify violations found by the exploration
    unlisted = []
    for rec in viol_records:
        for v in rec["violations"]:
            m = next((k for k in known if sig_matches(k["signature"], v["sig"])), None)
            if m is not None:
                known_hit[m["id"]] = m
            else:
                unlisted.append((rec, v))

    all_sigs = sorted({jdump(v["sig"]) for _, v in unlisted})
    if all_sigs:
        print(f"{len(all_sigs)} distinct unlisted violation signatures:", flush=True)
        for s_ in all_sigs[:40]:
            print("   ", s_)
    for k in known_hit.values():
        print(f"KNOWN-FINDING: property={pid} {k['id']}: {k['what']}")

    phases["known_findings"] = round(time.monotonic() - t_start - sum(phases.values()), 1)
    exit_code = 0
    reported = []
    seen_sigs = set()
    for rec, v in unlisted:
        key = jdump(v["sig"])
        if key in seen_sigs:
            continue
        seen_sigs.add(key)
        rep = v.get("replay") or rec.get("replay")
        if rep is None:
            harness_errors.append({"seed": rec["seed"], "harness_error": "violation without replay data"})
            continue
        rep = dict(rep)
        rep.update({"format": 1, "engine": "pbsim", "engine_version": ENGINE_VERSION, "zygote_warmup": ZYGOTE_WARMUP,
                    "property": pid, "seed": rec["seed"], "tier": a.tier, "python_optimize": bool(sys.flags.optimize),
                    "violation": {"sig": v["sig"], "detail": v.get("detail", "")[:2000]}})
        rep_orig = dict(rep)
        if not a.no_minimise and hasattr(mod, "minimise") and len(seen_sigs) <= 2:
            t_m = time.monotonic()
            try:
                rep = run_in_fork(_minimise_in_child, (pid, rep), timeout=900)
            except ForkError as e:
                print("minimisation failed (keeping the unminimised replay):", str(e)[:500])
            print(f"minimised in {time.monotonic() - t_m:.1f}s: {rep.get('minimised')}", flush=True)
        path = write_replay(pid, rep)
        t_m = time.monotonic()
        ok, out = confirm_replay(path)
        print(f"replayed in a fresh interpreter in {time.monotonic() - t_m:.1f}s: reproduced={ok}", flush=True)
        note = None
        if not ok:
            # The failing run was observed (and re-observed by the minimiser) in forks of THIS process but not in a
            # fresh interpreter.  The harness is deterministic (self-test), so the difference comes from state the
            # code under test consults and the simulator cannot own - in practice object addresses (id()-keyed caches,
            # allocator reuse).  Re-observe it in forks of this process; such a dependence is itself non-determinism.
            k = 0
            for _ in range(4):
                try:
                    rec2 = run_in_fork(_replay_in_child, (pid, rep), timeout=600)
                    k += any(v2["sig"] == v["sig"] for v2 in rec2.get("violations", []))
                except ForkError:
                    pass
            if not k and rep is not rep_orig and rep.get("minimised"):
                # shrinking may have removed what the address-dependent failure needs: fall back to the full history
                rep = rep_orig
                path = write_replay(pid, rep)
                ok, out = confirm_replay(path)
                if not ok:
                    for _ in range(4):
                        try:
                            rec2 = run_in_fork(_replay_in_child, (pid, rep), timeout=600)
                            k += any(v2["sig"] == v["sig"] for v2 in rec2.get("violations", []))
                        except ForkError:
                            pass
            if not k and v.get("reobserved_in_worker"):
                k = v["reobserved_in_worker"]
                rep = rep_orig
                path = write_replay(pid, rep)
            if k and not ok:
                ok = True
                note = (f"re-observed {k} time(s) in replays within the checking process tree but not in a fresh interpreter: "
                        f"the failure depends on state outside the simulator's control (object addresses / allocator "
                        f"state), which is itself a violation of determinism")
        if ok:
            print(f"VIOLATION property={pid} replay={path}")
            if note:
                print("  note:", note)
            print("  signature:", key)
            print("  detail:", v.get("detail", "")[:1000])
            reported.append(path)
            exit_code = 1
        else:
            harness_errors.append({"seed": rec["seed"], "harness_error":
                                   f"violation {key} did not reproduce from its replay file {path}:\n{out}"})
        if len(reported) >= 3:
            break

    phases["minimise_and_confirm"] = round(time.monotonic() - t_start - sum(phases.values()), 1)

    # ---- the same check again, smaller, in an interpreter started with -O: interpreter flags are part of the environment
    # a user may run the library in (asserts and `if __debug__:` blocks are compiled out); simulated run and solo
    # oracle both run under the flag, so what shows is a dependence of the PROPERTY on it, not a difference in numbers
    opt_pass = {"runs": 0}
    n_opt = a.opt_pass_runs if a.opt_pass_runs is not None else (0 if sys.flags.optimize else max(8, len(records) // 8))
    if n_opt > 0 and not sys.flags.optimize:
        cmd = [sys.executable, "-O", "-m", "pbsim.main", pid, "--tier", a.tier, "--runs", str(n_opt), "--no-evidence",
               "--opt-pass-runs", "0", "--workers", str(a.workers)]
        if budget:
            cmd += ["--budget", str(max(30.0, budget / 8.0))]
        try:
            cp = subprocess.run(cmd, cwd=VERIF, capture_output=True, text=True, timeout=3000)
            out_lines = cp.stdout.splitlines()
            keep = False
            for ln in out_lines:
                if ln.startswith("VIOLATION "):
                    keep = True
                    print(ln + "   (pass under python -O)")
                    reported.append(ln.split("replay=", 1)[-1].strip())
                elif keep and ln.startswith("  "):
                    print(ln)
                else:
                    keep = False
                    if ln.startswith("HARNESS-ERROR"):
                        print(ln[:600])
            tail = next((ln for ln in reversed(out_lines) if ln.startswith("runs=")), "")
            opt_pass = {"runs": n_opt, "exit": cp.returncode, "summary": tail}
            if cp.returncode == 1:
                exit_code = 1
            elif cp.returncode != 0:
                harness_errors.append({"seed": None, "harness_error": f"python -O pass exited {cp.returncode}: "
                                       + (cp.stdout[-1500:] + cp.stderr[-1500:])})
        except subprocess.TimeoutExpired:
            harness_errors.append({"seed": None, "harness_error": "python -O pass timed out"})
    phases["python_O_pass"] = round(time.monotonic() - t_start - sum(phases.values()), 1)
    wall = time.monotonic() - t_start
    print("phases:", phases, flush=True)
    if not a.no_evidence:
        ev = build_evidence(mod, pid, a.tier, base, records, wall, det, known_hit, reported, harness_errors,
                            regression=regression, opt_pass=opt_pass)
        os.makedirs(a.evidence_dir, exist_ok=True)
        with open(os.path.join(a.evidence_dir, f"{pid}.json"), "w") as f:
            json.dump(ev, f, indent=1, sort_keys=True)
        try:
            import jsonschema
            with open("/root/.vp/EVIDENCE.schema.json") as f:
                jsonschema.validate(ev, json.load(f))
        except (ImportError, FileNotFoundError):
            pass
        except Exception as e:  # noqa: an evidence file that does not validate is a harness problem, not a verdict
            harness_errors.append({"seed": None, "harness_error": f"evidence does not validate: {str(e)[:400]}"})
    ok_runs = sum(1 for r in records if "harness_error" not in r)
    print(f"runs={len(records)} ok={ok_runs} violations_unlisted={len(seen_sigs)} known={len(known_hit)} "
          f"harness_errors={len(harness_errors)} wall={wall:.1f}s", flush=True)
    if harness_errors:
        for h in harness_errors[:5]:
            print("HARNESS-ERROR seed=%s: %s" % (h.get("seed"), str(h.get("harness_error"))[:1500]))
        if exit_code == 0:
            exit_code = 2
    return exit_code


def _replay_in_child(pid, rep):
    return load_prop(pid).replay_case(rep)


def _minimise_in_child(pid, rep):
    return load_prop(pid).minimise(rep)


def build_evidence(mod, pid, tier, base, records, wall, det, known_hit, reported, harness_errors, regression=None, opt_pass=None):
    good = [r for r in records if "harness_error" not in r]
    cov = mod.summarise(good)
    nontrivial = {r["digest"] for r in good if r.get("nontrivial") and r.get("digest")}
    cov.setdefault("evaluations", len(good))
    cov.setdefault("distinct_nontrivial", len(nontrivial))
    cov.setdefault("samples", [r["sample"] for r in good if "sample" in r][:3])
    sim_wall = sum(r.get("wall", 0.0) for r in good)
    cov["runs_per_hour_this_machine"] = int(len(good) / wall * 3600) if wall > 0 else 0
    cov["seeds_per_hour_this_machine"] = cov["runs_per_hour_this_machine"]
    cov["cpu_seconds_in_runs"] = round(sim_wall, 1)
    cov["determinism_spot_check"] = det
    cov["all_run_digests_sha"] = sha([[r["idx"], r.get("digest")] for r in good])
    cov["known_findings_reproduced"] = sorted(known_hit)
    cov["violation_replays"] = reported
    cov["repaired_defect_witnesses"] = regression or {"replayed": 0, "failing": 0}
    cov["pass_under_python_O"] = opt_pass or {"runs": 0}
    cov["harness_errors"] = len(harness_errors)
    cov["runs_retried_without_opcode_after_interpreter_crash"] = sum(1 for r in good if r.get("retried_after_interpreter_crash"))
    cov["components"] = {
        "real": "the entire pure-Python py_ballisticcalc package imported from the working tree of " + lib.REPO,
        "stub": mod.STUBS,
        "not_run": "the Cython backend py_ballisticcalc.exts (not installed, cannot be built offline)"}
    return {"property_id": pid, "tier": tier, "seed": base, "level": mod.LEVEL, "coverage": cov,
            "assumptions": mod.ASSUMPTIONS, "wall_s": round(wall, 2), "violations": len(reported)}
