"""Deterministic scheduler: real threads passing a baton, pre-empted at trace events that the simulator owns.

Exactly one task thread is runnable at any time.  Pre-emption points are
  * `line` events (optionally `opcode` events inside the touch set) in frames whose code lives under the library,
  * the per-integration-step atmosphere seam,
  * operation boundaries.
Every decision comes from a Decider: PRNG-driven policies, or the literal slice list of a replay file.  The actual
slices run are recorded, so a replay follows them exactly whatever policy produced them."""
import sys
import threading

from pbsim import lib
from pbsim.util import geometric

HUGE = 1 << 60


class SimInterrupt(BaseException):
    """Stands for an asynchronous interrupt (SIGINT/KeyboardInterrupt) delivered at an arbitrary instant."""


class BudgetExceeded(BaseException):
    """Deterministic liveness budget (events or integration steps per operation) exhausted."""


# functions executed once per integration step (cold mode leaves them untraced; all are pure on this tree)
HOT_FUNCS = {
    "drag_by_mach", "_calculate_by_curve_and_mach_list", "should_record", "check_next_time", "check_mach_crossing",
    "check_zero_crossing", "clear_current_flag", "get_density_factor_and_mach_for_altitude", "temperature_at_altitude",
    "pressure_at_altitude", "machK", "spin_drift", "create_trajectory_row", "_new_feet", "_new_fps", "_new_rad",
    "_new_ft_lb", "_new_lb", "get_correction", "calculate_energy", "calculate_ogw", "vector_for_range",
    "current_vector", "to_raw", "from_raw", "_validate_unit_type", "get_debug",
}
# functions that read or write shared / long-lived state: opcode granularity, boundary-biased policy aims here
TOUCH_FUNCS = {
    "convert", "__call__", "set", "defaults", "set_global_max_calc_step_size", "reset_globals",
    "create_interface_config", "make_data_points", "DragModelMultiBC", "set_weapon_zero", "_init_trajectory",
    "__post_init__", "zero_angle", "barrel_elevation_for_target", "_parse_unit", "_load_config", "_basic_config",
    "calc_powder_sens", "get_global_max_calc_step_size", "__hash__", "__eq__",
}


class Task:
    def __init__(self, idx, program, role="client"):
        self.idx = idx
        self.program = program
        self.role = role
        self.sem = threading.Semaphore(0)
        self.thread = None
        self.finished = False
        self.op_idx = -1
        self.op_events = 0
        self.op_steps = 0
        self.harness = 1            # >0: harness code is running in this thread (untraced, no pre-emption)
        self.in_loop = 0            # cold mode: inside an integration loop (callees untraced until _integrate returns)
        self.results = []
        self.armed = None           # fault armed for the current op: {"at": n, "kind":..., "exc":...}
        self.fired = None
        self.where = ("-", 0)
        self.step_budget = None
        self.priority = 0


class PrngDecider:
    """policy in {'uniform','pct','boundary','serial'}"""

    def __init__(self, rng, policy, mean_run, est_len, ntasks, pct_depth=2):
        self.rng = rng
        self.policy = policy
        self.mean_run = mean_run
        self.change_points = []
        if policy == "pct":
            self.prio = list(range(ntasks))
            rng.shuffle(self.prio)                      # prio[i] = priority of task i (higher runs first)
            self.prio = [p + pct_depth + 1 for p in self.prio]
            self.change_points = sorted(rng.randrange(1, max(2, est_len)) for _ in range(max(0, pct_depth - 1)))
            self.next_low = pct_depth

    def choose(self, sim, cur, runnable):
        rng = self.rng
        if self.policy == "serial":
            t = cur if cur is not None and not cur.finished else runnable[0]
            return t, HUGE
        if self.policy == "pct":
            while self.change_points and sim.events >= self.change_points[0]:
                self.change_points.pop(0)
                if cur is not None:
                    self.next_low -= 1
                    self.prio[cur.idx] = self.next_low
            t = max(runnable, key=lambda x: (self.prio[x.idx], -x.idx))
            n = (self.change_points[0] - sim.events) if self.change_points else HUGE
            return t, max(1, n)
        t = runnable[rng.randrange(len(runnable))]
        n = geometric(rng, self.mean_run)
        if self.policy == "boundary" and cur is not None and (cur.op_events < 200) and rng.random() < 0.5:
            n = geometric(rng, 4)
        return t, n

    def touch(self, sim):
        if self.policy == "boundary" and self.rng.random() < 0.5:
            sim.slice_left = min(sim.slice_left, geometric(self.rng, 3))


class LiteralDecider:
    """Follows a recorded slice list [[task, n_events], ...] exactly; when a named task is not runnable (after
    minimisation removed something) the lowest-numbered runnable task takes the slice; when the list is exhausted
    the current task runs on."""

    def __init__(self, slices):
        self.slices = [list(s) for s in slices]
        self.pos = 0

    def choose(self, sim, cur, runnable):
        if self.pos >= len(self.slices):
            t = cur if cur is not None and not cur.finished else runnable[0]
            return t, HUGE
        ti, n = self.slices[self.pos]
        self.pos += 1
        t = next((x for x in runnable if x.idx == ti), None)
        if t is None:
            t = runnable[0]
        return t, max(1, n)

    def touch(self, sim):
        pass


class Sim:
    """mode: 'line' | 'cold' | 'step' | 'none';  opcode: per-instruction events inside TOUCH_FUNCS."""

    def __init__(self, programs, exec_op, decider, mode="cold", opcode=False, faults=None, on_boundary=None,
                 event_budget=50_000_000, roles=None, wall_timeout=400.0, max_slices=300_000):
        self.tasks = [Task(i, p, (roles or {}).get(i, "client")) for i, p in enumerate(programs)]
        self.exec_op = exec_op
        self.decider = decider
        self.mode = mode
        self.opcode = opcode
        self.on_boundary = on_boundary
        self.event_budget = event_budget
        self.wall_timeout = wall_timeout
        # memory bound: after this many recorded slices the run continues WITHOUT further pre-emption - exactly what a
        # literal replay does when its slice list is exhausted, so the recorded schedule still replays the run
        self.max_slices = max_slices
        self.record_where_task = None      # optional: function name at every pre-emption point of this task
        self.where_log = []
        # faults: {(task, op_idx): {"at": event offset within op, "kind": "interrupt", "exc": "SimInterrupt"|"MemoryError"}}
        self.faults = {}
        for f in faults or []:
            self.faults[(f["task"], f["op"])] = f
        # CPython 3.12.1 crashes (SIGSEGV in an inlined comprehension) when a trace function raises - which unsets and
        # later re-arms tracing - while another thread is suspended inside code instrumented for per-instruction
        # events.  Runs that inject interrupts therefore pre-empt at line granularity only.
        import os
        if self.faults or os.environ.get("PBSIM_NO_OPCODE"):
            self.opcode = False
        self.events = 0
        self.steps = 0
        self.switches = 0
        self.slice_left = HUGE
        self.cur_run = 0
        self.current = None
        self.schedule = []
        self.log = []
        self.done = threading.Event()
        self.harness_errors = []
        self.fault_fired = []
        self.overlap = {}
        self.touch_calls = {}
        self.libdir = lib.LIBDIR
        self._lt = self._ltrace
        self._tracing = mode in ("line", "cold")

    # ------------------------------------------------------------------------------------------------ tracing
    def _gtrace(self, frame, event, arg):
        co = frame.f_code
        if not co.co_filename.startswith(self.libdir):
            return None
        t = self.current
        if t.harness:
            return None
        name = co.co_name
        if self.mode == "cold" and (t.in_loop or name in HOT_FUNCS or co.co_filename.endswith("_vector.py")):
            return None
        if name in TOUCH_FUNCS:
            self.touch_calls[name] = self.touch_calls.get(name, 0) + 1
            self.decider.touch(self)
            if self.opcode:
                frame.f_trace_opcodes = True
        return self._lt

    def _ltrace(self, frame, event, arg):
        if event == "line" or event == "opcode":
            t = self.current
            t.where = (frame.f_code.co_name, frame.f_lineno)
            self.point(t)
        elif event == "return" and frame.f_code.co_name == "_integrate":
            self.current.in_loop = 0           # cold mode: the loop is over, trace callees again
        return self._lt

    def step_hook(self, altitude):
        """atmosphere seam: once per integration step, from the running task's thread"""
        t = self.current
        if t is None or t.harness:
            return
        self.steps += 1
        t.op_steps += 1
        if t.step_budget is not None and t.op_steps > t.step_budget:
            raise BudgetExceeded("steps")
        if self.mode == "cold":
            f = sys._getframe(2)
            if f.f_trace_lines and f.f_code.co_filename.startswith(self.libdir):
                f.f_trace_lines = False             # integration loop entered: stop line events for this frame
                f.f_trace_opcodes = False
                t.in_loop = 1                       # ... and do not trace what the loop calls (per-step unit conversions)
        if self.mode != "line":
            t.where = ("<integration step>", 0)
            self.point(t)

    # ------------------------------------------------------------------------------------------------ core
    def point(self, t):
        self.events += 1
        t.op_events += 1
        self.cur_run += 1
        if t.idx == self.record_where_task:
            self.where_log.append(t.where[0])
        if t.op_events > self.event_budget:
            raise BudgetExceeded("events")
        a = t.armed
        if a is not None and t.op_events >= a["at"]:
            t.armed = None
            t.fired = a
            self.fault_fired.append({"kind": a["kind"], "exc": a["exc"], "task": t.idx, "op": t.op_idx,
                                     "at": t.op_events, "where": list(t.where)})
            self.log.append(("fault", self.events, t.idx, t.op_idx, a["exc"], t.where[0], t.where[1]))
            self.slice_left -= 1
            raise (MemoryError("injected") if a["exc"] == "MemoryError" else SimInterrupt("injected"))
        self.slice_left -= 1
        if self.slice_left <= 0:
            self._switch(t)

    def _runnable(self):
        return [x for x in self.tasks if not x.finished]

    def _choose(self, cur, runnable):
        if len(self.schedule) >= self.max_slices:
            return (cur if cur is not None and not cur.finished else runnable[0]), HUGE
        return self.decider.choose(self, cur, runnable)

    def _switch(self, t):
        nxt, n = self._choose(t, self._runnable())
        self.schedule.append([t.idx, self.cur_run])
        self.cur_run = 0
        self.slice_left = n
        if nxt is not t:
            self.switches += 1
            self.log.append(("switch", self.events, t.idx, nxt.idx, t.where[0], t.where[1]))
            key = (t.where[0], nxt.where[0])
            self.overlap[key] = self.overlap.get(key, 0) + 1
            self.current = nxt
            nxt.sem.release()
            t.sem.acquire()

    def _finish(self, t):
        t.finished = True
        self.schedule.append([t.idx, self.cur_run])
        self.cur_run = 0
        run = self._runnable()
        self.log.append(("end", self.events, t.idx))
        if not run:
            self.current = None
            self.done.set()
            return
        nxt, n = self._choose(t, run)
        self.slice_left = n
        self.current = nxt
        nxt.sem.release()

    def _body(self, t):
        t.sem.acquire()
        try:
            if self._tracing:
                sys.settrace(self._gtrace)
            for i, op in enumerate(t.program):
                t.op_idx = i
                t.op_events = 0
                t.op_steps = 0
                t.in_loop = 0
                t.fired = None
                t.where = ("<op start>", i)
                t.armed = self.faults.get((t.idx, i))
                if self.on_boundary:
                    self.on_boundary(self, t, i, "start")
                self.log.append(("op", self.events, t.idx, i, op.get("op")))
                self.point_boundary(t)
                outcome = self._run_op(t, op)
                outcome["events"] = t.op_events
                outcome["steps"] = t.op_steps
                t.results.append(outcome)
                t.where = ("<op end>", i)
                self.log.append(("ret", self.events, t.idx, i, outcome.get("kind")))
                if self.on_boundary:
                    self.on_boundary(self, t, i, "end")
                self.point_boundary(t)
        except BaseException as e:  # noqa: harness failure inside a task thread
            import traceback
            self.harness_errors.append(f"task {t.idx}: {traceback.format_exc()[-3000:]}")
        finally:
            sys.settrace(None)
            t.harness = 1
            self._finish(t)

    def point_boundary(self, t):
        """operation boundary: a scheduling point (never a fault point)"""
        self.events += 1
        self.cur_run += 1
        if t.idx == self.record_where_task:
            self.where_log.append("<boundary>")
        self.slice_left -= 1
        if self.slice_left <= 0:
            self._switch(t)

    def _run_op(self, t, op):
        t.harness = 0
        try:
            try:
                res = self.exec_op(t, op)
                return res
            finally:
                t.harness = 1
        except SimInterrupt:
            out = {"kind": "interrupted", "exc": "SimInterrupt"}
        except MemoryError as e:
            if t.fired is None:
                raise
            out = {"kind": "interrupted", "exc": "MemoryError"}
        except BudgetExceeded as e:
            out = {"kind": "budget", "what": str(e)}
        if self._tracing:
            sys.settrace(self._gtrace)           # a trace function that raised has been unset by CPython: re-arm
        out["fault"] = t.fired
        return out

    def run(self):
        lib.set_step_hook(self.step_hook)
        for t in self.tasks:
            t.thread = threading.Thread(target=self._body, args=(t,), name=f"sim-task-{t.idx}", daemon=True)
            t.thread.start()
        run = self._runnable()
        if not run:
            return self
        nxt, n = self.decider.choose(self, None, run)
        self.slice_left = n
        self.current = nxt
        nxt.sem.release()
        if not self.done.wait(self.wall_timeout):
            self.harness_errors.append("simulation did not finish within the wall limit (harness watchdog)")
        else:
            for t in self.tasks:
                t.thread.join(10)
        lib.set_step_hook(None)
        return self
