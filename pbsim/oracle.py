"""(O1) Solo replay: every completed operation of a simulated history is re-executed ALONE - fresh objects rebuilt
from specs (no aliasing), a fresh calculator with a fully explicit configuration, default globals, one thread, no
faults, plain Atmo (no seam) - in its own fork of the pristine worker image.  Digest in the simulation must equal
digest in the solo run, bit for bit, exceptions included.

The only model state is what the API defines as state: each weapon's stored zero, each ammunition's temperature
modifier (both taken from the solo results), and for bare-number arguments / unspecified calculator settings the
global settings the simulation *observed* at the start of that operation."""
import copy

from pbsim import lib
from pbsim.forkrun import run_in_fork
from pbsim.names import CONFIG_DEFAULTS
from pbsim.ops import ADMIN_OPS, Ctx, outcome_exc, outcome_ok, perform
from pbsim.util import fhex
from pbsim.world import Builder


def make_explicit(x, slots):
    """replace every {"bare": v, "slot": s} by [v, unit in force]"""
    if isinstance(x, dict):
        if "bare" in x and "slot" in x:
            return [x["bare"], slots[x["slot"]]]
        return {k: make_explicit(v, slots) for k, v in x.items()}
    if isinstance(x, list):
        return [make_explicit(v, slots) for v in x]
    return x


def explicit_calc_cfg(spec_cfg, gstep_hex):
    cfg = dict(CONFIG_DEFAULTS)
    cfg["max_calc_step_size_feet"] = float.fromhex(gstep_hex)
    cfg.update(spec_cfg or {})
    return cfg


class _SoloBudget(BaseException):
    pass


def _solo_child(world, steps, overrides, calc_cfg, step_budget=None, user_filter=None):
    """steps: list of explicit ops run in order in this child (a danger op is preceded by its fire); the outcome of
    the last one is returned together with the pre-state of the weapon/ammo it may mutate."""
    lib.reset_globals()
    import logging
    logging.raiseExceptions = False
    if user_filter not in (None, "ignore"):
        # the warnings filter is the USER's setting, part of the environment the operation runs in: the solo run gets
        # the same setting (and, being a pristine process, nothing the library may have added to it since)
        import warnings
        warnings.resetwarnings()
        if user_filter != "reset":
            warnings.simplefilter(user_filter)
    # normally the solo run uses the plain Atmo (which also checks that the step seam is transparent); only when the
    # simulated operation ran out of its deterministic step budget is the solo run given the same budget through the
    # seam, so that "does not terminate solo either" is decided by counting, not by a wall clock
    edits = list((overrides or {}).get("edits") or [])
    if any(e[0] == "atmos" and e[2] == "humidity" for e in edits):
        # `atmo.humidity = x` is a property with a setter: its meaning is "the atmosphere as if built with humidity x", so the
        # solo run BUILDS it with x instead of going through the same setter (which would make both sides agree on
        # whatever the setter does or forgets to do)
        import copy
        world = copy.deepcopy(world)
        for e in edits:
            if e[0] == "atmos" and e[2] == "humidity":
                world["atmos"][e[1]]["humidity"] = e[3]
        edits = [e for e in edits if not (e[0] == "atmos" and e[2] == "humidity")]
    b = Builder(world, shared=False, seam=step_budget is not None, overrides=overrides, calc_cfg=calc_cfg)
    b.apply_edits(edits)
    if step_budget is not None:
        n = [0]

        def hook(altitude):
            n[0] += 1
            if n[0] > step_budget:
                raise _SoloBudget()
        lib.set_step_hook(hook)
    ctx = Ctx(b)
    out = None
    for op in steps:
        pre = {}
        if op.get("op") in ("zero", "elev", "fire"):
            w = b.weapon(world["shots"][op["shot"]]["weapon"])
            pre["zero"] = float(w.zero_elevation.raw_value).hex()
        if op.get("op") == "powder":
            pre["tm"] = fhex(float(b.ammo(op["ammo"]).temp_modifier))
        try:
            res = perform(op, ctx)
            out = outcome_ok(res)
        except _SoloBudget:
            out = {"kind": "budget", "digest": None}
        except Exception as e:  # noqa
            out = outcome_exc(e)
        out["pre"] = pre
    return out


def solo(world, steps, overrides, calc_cfg, timeout=300, step_budget=None, user_filter=None):
    return run_in_fork(_solo_child, (world, steps, overrides, calc_cfg, step_budget, user_filter), timeout=timeout)


SKIP_COMPARE = ADMIN_OPS - {"gstep"}      # the global step setter takes a float-or-quantity: it is compared


def evaluate(spec, hist, compare_admin=False):
    """Returns (violations, stats).  A violation: {"sig": {...}, "detail": str}."""
    world = spec["world"]
    viol = []
    stats = {"compared": 0, "after_failure": 0, "interrupted": 0, "raising": 0, "solo_runs": 0}
    calc_cfg = {}                      # cid -> explicit cfg (from the globals observed at the new_calc op)
    # pass 1: calculators (a calculator is created by a new_calc op; its creation-time global step is observed)
    for ti, prog in enumerate(spec["programs"]):
        for i, op in enumerate(prog):
            if op.get("op") == "new_calc":
                g = hist["globals_at"][ti][i]
                if g is not None:
                    calc_cfg[str(op["calc"])] = explicit_calc_cfg(world["calcs"][op["calc"]].get("config"), g["gstep"])
    for ti, prog in enumerate(spec["programs"]):
        ov = {"weapon_zero": {}, "ammo_tm": {}, "edits": []}
        ov_at = {}
        failed_before = set()          # calculators on which an op has failed / been interrupted earlier
        for i, op in enumerate(prog):
            if i >= len(hist["results"][ti]):
                break
            res = hist["results"][ti][i]
            k = op.get("op")
            g = hist["globals_at"][ti][i]
            ov_at[i] = copy.deepcopy(ov)
            if k in SKIP_COMPARE and not compare_admin and not (k == "basic_config" and op.get("step") is not None
                                                                and not op.get("units")):
                continue
            if k == "retag":
                continue            # display only: nothing to compare, nothing the solo run needs to know
            if k == "reread":
                # no solo run needed: the object must digest exactly as it did when it was returned
                j = op["src"]
                first = hist["results"][ti][j] if j < len(hist["results"][ti]) else None
                if first is not None and first.get("kind") == "ok" and res.get("kind") == "ok" \
                        and res.get("digest") != first.get("digest"):
                    viol.append(_v("result.changed_after_return", prog[j].get("op"), spec, ti, i,
                                   f"the {prog[j].get('op')} result returned by op {j} reads differently now: "
                                   + _diff_detail(res, first)))
                continue
            if k == "edit":
                if res.get("kind") == "ok":
                    ov["edits"].append([op["kind"], op["index"], op["field"], op["value"]])
                    if op["kind"] == "weapons" and op["field"] == "zero_elevation":
                        ov["weapon_zero"].pop(str(op["index"]), None)
                continue
            if k in ("fire", "zero", "elev", "fire_tmp") and str(op["calc"]) not in calc_cfg:
                # calculator used before its new_calc op completed (e.g. creation interrupted): nothing to compare
                continue
            eop = make_explicit(op, g["slots"]) if g else op
            eop = dict(eop, _idx=i)
            steps = [eop]
            use_ov = ov
            if k in ("danger", "at_dist"):
                j = op["fire"]
                fres = hist["results"][ti][j] if j < len(hist["results"][ti]) else None
                if fres is None or fres.get("kind") != "ok":
                    continue
                fop = make_explicit(prog[j], hist["globals_at"][ti][j]["slots"])
                steps = [dict(fop, _idx=j), eop]
                use_ov = ov_at[j]
            ufl = (hist.get("userfilter_at") or [[]])[ti][i] if hist.get("userfilter_at") else None
            if hist.get("filter_unstable") and hist["filter_unstable"][ti][i]:
                ufl = None          # the user changed the setting while the operation ran: either setting may have acted
            sres = solo(world, steps, use_ov, calc_cfg, user_filter=ufl,
                        step_budget=(2 * max(1, res.get("steps", 0)) if res.get("kind") == "budget" else None))
            stats["solo_runs"] += 1
            post = (hist["post"][ti][i] or {})
            wid = str(world["shots"][op["shot"]]["weapon"]) if k in ("zero", "elev", "fire") else None
            pre_zero = sres.get("pre", {}).get("zero")
            if res.get("kind") in ("interrupted", "budget"):
                stats["interrupted"] += 1
                if op.get("calc") is not None:
                    failed_before.add(op["calc"])
                if k == "zero":
                    okv = {pre_zero}
                    if sres["kind"] == "ok":
                        okv.add(sres["digest"][1])
                    if post.get("zero") not in okv:
                        viol.append(_v("zero.interrupt_not_atomic", k, spec, ti, i,
                                       f"stored zero after an interrupted zeroing is {post.get('zero')}, neither the "
                                       f"old value {pre_zero} nor the complete answer {sres.get('digest')}"))
                    ov["weapon_zero"][wid] = post.get("zero")
                elif k in ("elev", "fire") and post.get("zero") != pre_zero:
                    viol.append(_v("zero.changed_by_non_zero_op", k, spec, ti, i,
                                   f"stored zero changed {pre_zero} -> {post.get('zero')} by an interrupted {k}"))
                    ov["weapon_zero"][wid] = post.get("zero")
                if k == "powder":
                    okv = {sres.get("pre", {}).get("tm")}
                    if sres["kind"] == "ok":
                        okv.add(sres["digest"])
                    if post.get("tm") not in okv:
                        viol.append(_v("powder.interrupt_not_atomic", k, spec, ti, i,
                                       f"temperature modifier after an interrupted calibration is {post.get('tm')}, "
                                       f"neither the old value nor the complete answer {sres.get('digest')}"))
                    else:
                        ov["ammo_tm"][str(op["ammo"])] = post.get("tm")
                if res.get("kind") == "budget" and res.get("what") == "steps" and sres["kind"] != "budget":
                    # (the EVENT budget is only a memory/time guard of the tracing harness: exceeding it says nothing)
                    viol.append(_v("liveness.budget_exceeded_in_history_only", k, spec, ti, i,
                                   f"operation exceeded its deterministic {res.get('what')} budget in the simulated "
                                   f"history but terminates when executed solo"))
                continue
            stats["compared"] += 1
            if op.get("calc") is not None and op["calc"] in failed_before:
                stats["after_failure"] += 1
            if res.get("kind") == "exc":
                stats["raising"] += 1
                if op.get("calc") is not None:
                    failed_before.add(op["calc"])
            same = (res.get("kind") == sres["kind"] and res.get("digest") == sres["digest"])
            if not same:
                vv = _v("O1.digest", k, spec, ti, i, _diff_detail(res, sres))
                if ufl not in (None, "ignore"):
                    vv["sig"]["user_warning_filter"] = ufl
                viol.append(vv)
            # state the API defines: follow the solo result
            if k == "zero":
                if sres["kind"] == "ok":
                    ov["weapon_zero"][wid] = sres["digest"][1]
                if not same and post.get("zero") is not None:
                    # already reported: from here on follow the state the simulated history really has, so that one
                    # divergence is not re-reported under misleading names by every later operation on this weapon
                    ov["weapon_zero"][wid] = post.get("zero")
                if res.get("kind") == "exc" and post.get("zero") != pre_zero:
                    viol.append(_v("zero.failed_attempt_changed_stored_zero", k, spec, ti, i,
                                   f"zeroing raised {res['digest'].get('exc')} but the stored zero went "
                                   f"{pre_zero} -> {post.get('zero')}"))
                if res.get("kind") == "ok" and same and post.get("zero") != res["digest"][1]:
                    viol.append(_v("zero.stored_differs_from_returned", k, spec, ti, i,
                                   f"returned {res['digest']} but stored {post.get('zero')}"))
            if k in ("elev", "fire") and post.get("zero") is not None and post.get("zero") != pre_zero and same:
                viol.append(_v("zero.changed_by_non_zero_op", k, spec, ti, i,
                               f"stored zero changed {pre_zero} -> {post.get('zero')} by {k}"))
            if k == "powder" and sres["kind"] == "ok":
                ov["ammo_tm"][str(op["ammo"])] = sres["digest"] if same or post.get("tm") is None else post.get("tm")
    return viol, stats


def _v(inv, opkind, spec, ti, i, detail):
    return {"sig": {"invariant": inv, "op": opkind}, "detail": f"task {ti} op {i}: {detail}", "task": ti, "op_index": i}


def _diff_detail(a, b):
    if a.get("kind") != b.get("kind"):
        return f"simulated outcome {a.get('kind')}:{str(a.get('digest'))[:200]} vs solo {b.get('kind')}:{str(b.get('digest'))[:200]}"
    da, db = a.get("digest"), b.get("digest")
    if isinstance(da, dict) and isinstance(db, dict) and "rows" in da and "rows" in db:
        ra, rb = da["rows"], db["rows"]
        if len(ra) != len(rb):
            return f"row count {len(ra)} vs solo {len(rb)}"
        for n, (x, y) in enumerate(zip(ra, rb)):
            if x != y:
                cols = [c for c in range(len(x)) if x[c] != y[c]]
                return f"row {n} differs in columns {cols}: {[x[c] for c in cols][:4]} vs solo {[y[c] for c in cols][:4]}"
    return f"simulated {str(da)[:300]} vs solo {str(db)[:300]}"
