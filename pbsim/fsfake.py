"""In-memory file system behind the two names the configuration loader resolves through the package module's
globals: `py_ballisticcalc.os` and `py_ballisticcalc.open`.  Path arithmetic is delegated to posixpath (pure);
getcwd / exists / open / read are simulated and can fail the way real ones do."""
import errno
import io
import posixpath


class _FakePath:
    """the part of os.path the loader uses; everything pure comes from posixpath"""

    def __init__(self, fs):
        self._fs = fs

    def __getattr__(self, name):
        return getattr(posixpath, name)

    def exists(self, p):
        return self._fs.exists(str(p))

    def abspath(self, p):
        p = str(p)
        if not posixpath.isabs(p):
            p = posixpath.join(self._fs.getcwd(), p)
        return posixpath.normpath(p)

    def isfile(self, p):
        return self._fs.exists(str(p)) and str(p) not in self._fs.dirs

    def isdir(self, p):
        return str(p) in self._fs.dirs


class _FakeOS:
    def __init__(self, fs, real_os):
        self._fs = fs
        self._real = real_os
        self.path = _FakePath(fs)

    def getcwd(self):
        return self._fs.getcwd()

    def __getattr__(self, name):
        return getattr(self._real, name)


class _FakeFile(io.BytesIO):
    def __init__(self, data, fs, path, read_error=None):
        super().__init__(data)
        self._fs = fs
        self._path = path
        self._read_error = read_error

    def read(self, *a):
        if self._read_error is not None:
            self._fs.log.append(("read_error", self._path))
            raise self._read_error
        b = super().read(*a)
        self._fs.log.append(("read", self._path, len(b)))
        return b


class FakeFS:
    """files: {abs path: bytes}; dirs: set of paths that are directories although a config name points at them.

    fault (at most one, aimed at `fault_path`):
      enoent_open   file disappears between exists() and open()          -> FileNotFoundError
      eacces_open   PermissionError on open
      eio_open      OSError(EIO) on open
      isdir_open    IsADirectoryError on open
      eio_read      OSError(EIO) from read()
      short_read    read() delivers only the first `arg` bytes (torn file)
      flip          one byte at offset `arg[0]` xor `arg[1]`
      replaced      content replaced between exists() and open() by `arg` (bytes)
      getcwd_fail   getcwd() raises FileNotFoundError (cwd removed)
    """

    def __init__(self, files, cwd, fault=None, fault_path=None, fault_arg=None, passthrough_open=None):
        self.files = dict(files)
        self.dirs = set()
        self.cwd = cwd
        self.fault = fault
        self.fault_path = fault_path
        self.fault_arg = fault_arg
        self.passthrough_open = passthrough_open
        self.log = []
        self.fired = False
        self.delivered = {}

    def getcwd(self):
        self.log.append(("getcwd",))
        if self.fault == "getcwd_fail":
            self.fired = True
            raise FileNotFoundError(errno.ENOENT, "No such file or directory")
        return self.cwd

    def exists(self, p):
        r = p in self.files or p in self.dirs
        self.log.append(("exists", p, r))
        return r

    def content_after_fault(self, p):
        """bytes a reader of `p` would be delivered (None if open/read fails)"""
        data = self.files.get(p)
        if data is None:
            return None
        if self.fault_path != p or self.fault is None:
            return data
        f, a = self.fault, self.fault_arg
        if f in ("enoent_open", "eacces_open", "eio_open", "isdir_open", "eio_read"):
            return None
        if f == "short_read":
            return data[:a]
        if f == "flip":
            off, mask = a
            if off >= len(data):
                return data
            return data[:off] + bytes([data[off] ^ mask]) + data[off + 1:]
        if f == "replaced":
            return a
        return data

    def open(self, p, mode="r", *args, **kw):
        p = str(p)
        self.log.append(("open", p, mode))
        if p not in self.files and p not in self.dirs:
            if self.passthrough_open is not None and self.passthrough_open[0](p):
                return self.passthrough_open[1](p, mode, *args, **kw)
            raise FileNotFoundError(errno.ENOENT, "No such file or directory", p)
        if p in self.dirs:
            raise IsADirectoryError(errno.EISDIR, "Is a directory", p)
        if self.fault_path == p and self.fault is not None:
            f = self.fault
            if f == "enoent_open":
                self.fired = True
                raise FileNotFoundError(errno.ENOENT, "No such file or directory", p)
            if f == "eacces_open":
                self.fired = True
                raise PermissionError(errno.EACCES, "Permission denied", p)
            if f == "eio_open":
                self.fired = True
                raise OSError(errno.EIO, "Input/output error", p)
            if f == "isdir_open":
                self.fired = True
                raise IsADirectoryError(errno.EISDIR, "Is a directory", p)
            if f == "eio_read":
                self.fired = True
                return _FakeFile(self.files[p], self, p, read_error=OSError(errno.EIO, "Input/output error"))
            if f in ("short_read", "flip", "replaced"):
                self.fired = True
        data = self.content_after_fault(p)
        self.delivered[p] = data
        if "b" not in mode:
            return io.StringIO(data.decode("utf-8", "replace"))
        return _FakeFile(data, self, p)

    def install(self, pkg):
        """put the fake behind the package module's `os` and `open`; returns an undo function"""
        import builtins
        real_os = pkg.os
        had_open = "open" in pkg.__dict__
        old_open = pkg.__dict__.get("open")
        pkg.os = _FakeOS(self, real_os)
        pkg.open = self.open

        def undo():
            pkg.os = real_os
            if had_open:
                pkg.open = old_open
            else:
                del pkg.open
        return undo
