"""Loads the library under test from the working tree (PBSIM_REPO, default /repo), warms it up (zygote) and owns
the one seam that needs library types: Atmo/Vacuum subclasses whose per-integration-step method reports to a hook.

Nothing here reads a clock or draws randomness."""
import os
import sys
import warnings

REPO = os.path.realpath(os.environ.get("PBSIM_REPO", "/repo"))

pb = None            # the imported package
LIBDIR = None        # directory of the package (trace filter)
SimAtmo = None
SimVacuum = None

# the hook the step seam reports to; set by the scheduler / sweeps.  signature: hook(altitude) -> None
_step_hook = None


def set_step_hook(fn):
    global _step_hook
    _step_hook = fn


def load():
    """Import the package from REPO's working tree, exactly once, and put process globals into the documented
    default state.  The import itself runs basicConfig(), which walks up from cwd looking for a config file: the
    check launcher runs with cwd=/verif which has none, so the package falls back to its own directory."""
    global pb, LIBDIR, SimAtmo, SimVacuum
    if pb is not None:
        return pb
    for m in list(sys.modules):
        if m == "py_ballisticcalc" or m.startswith("py_ballisticcalc."):
            raise RuntimeError("library imported before pbsim.lib.load()")
    sys.path.insert(0, REPO)
    with warnings.catch_warnings():
        warnings.simplefilter("ignore")
        import py_ballisticcalc as _pb
    got = os.path.realpath(os.path.dirname(_pb.__file__))
    want = os.path.join(REPO, "py_ballisticcalc")
    if got != want:
        raise RuntimeError(f"library loaded from {got}, expected {want}")
    pb = _pb
    LIBDIR = got + os.sep

    class _SimAtmo(pb.Atmo):
        """Atmo whose per-step query first reports to the simulator (counts, yields, may raise), then delegates."""
        def get_density_factor_and_mach_for_altitude(self, altitude):
            h = _step_hook
            if h is not None:
                h(altitude)
            return super().get_density_factor_and_mach_for_altitude(altitude)

    class _SimVacuum(pb.Vacuum):
        def get_density_factor_and_mach_for_altitude(self, altitude):
            h = _step_hook
            if h is not None:
                h(altitude)
            return super().get_density_factor_and_mach_for_altitude(altitude)

    SimAtmo, SimVacuum = _SimAtmo, _SimVacuum
    for cls, name in ((_SimAtmo, "SimAtmo"), (_SimVacuum, "SimVacuum")):
        cls.__qualname__ = cls.__name__ = name          # reachable as pbsim.lib.<name>: instances can be pickled
        cls.__module__ = __name__
    # the library's console log handler only adds noise to the check output (no oracle reads log text)
    for h in list(pb.logger.handlers):
        pb.logger.removeHandler(h)
    import logging
    pb.logger.addHandler(logging.NullHandler())
    reset_globals()
    return pb


def global_step_feet():
    """The process-wide default maximum step, in feet, as a calculator created NOW would receive it.

    Read from the module global the property names (trajectory_calc._globalMaxCalcStepSizeFeet) while it exists as a
    number; a tree that keeps the setting in another form is observed through what the setting is FOR - the step a
    default-configured calculator gets (interface_config.create_interface_config) - so a refactoring of the private
    representation is not a harness error."""
    import py_ballisticcalc.trajectory_calc as tc
    v = getattr(tc, "_globalMaxCalcStepSizeFeet", None)
    if isinstance(v, (int, float)) and not isinstance(v, bool):
        return v
    from py_ballisticcalc.interface_config import create_interface_config
    return create_interface_config(None).max_calc_step_size_feet


def reset_globals():
    """Documented default global state."""
    pb.PreferredUnits.defaults()
    pb.reset_globals()
    pb.set_debug(False)
    warnings.resetwarnings()
    warnings.simplefilter("ignore")      # runs that test filters set their own
    warnings.showwarning = _quiet_showwarning   # the library re-installs a "once" filter in every integration


def _quiet_showwarning(*a, **k):
    return None


def warmup():
    """Zygote warm-up v1: one throw-away zero + fire (+ a raising fire) so that every run forks from an image in
    which the hot library code has already been specialised by CPython (event counts depend on that)."""
    from pbsim import ZYGOTE_WARMUP
    assert ZYGOTE_WARMUP == "v1"
    U = pb.Unit
    for atmo_cls in (pb.Atmo, SimAtmo):
        for _ in range(2):
            dm = pb.DragModel(0.223, pb.TableG7, U.Grain(168), U.Inch(0.308), U.Inch(1.2))
            ammo = pb.Ammo(dm, U.FPS(2750), U.Celsius(15))
            weapon = pb.Weapon(U.Inch(2), U.Inch(11.24))
            atmo = atmo_cls(U.Foot(500), U.InHg(29.0), U.Fahrenheit(70), 40)
            shot = pb.Shot(weapon, ammo, atmo=atmo, winds=[pb.Wind(U.MPH(5), U.Degree(45), U.Yard(200))])
            calc = pb.Calculator(_config={"max_calc_step_size_feet": 2.0})
            calc.set_weapon_zero(shot, U.Yard(100))
            calc.fire(shot, U.Yard(300), U.Yard(50), extra_data=True)
            h = calc.fire(shot, U.Yard(200), U.Yard(25))
            try:
                pb.Calculator(_config={"max_calc_step_size_feet": 2.0, "cMinimumVelocity": 2600.0}).fire(
                    shot, U.Yard(300), U.Yard(50))
            except pb.RangeError:
                pass
    reset_globals()
