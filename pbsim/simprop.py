"""Shared plumbing for the scheduler-based properties: run one generated spec (simulate in a fork, evaluate with the
solo oracle), replay a literal spec, minimise a failing one, summarise coverage."""
import copy

from pbsim.forkrun import run_in_fork
from pbsim.oracle import evaluate
from pbsim.sched import TOUCH_FUNCS
from pbsim.simrun import simulate
from pbsim.util import sha


def run_spec(spec, accept=None, timeout=600):
    """-> (hist, violations, stats).  accept(v, spec, hist) may veto a violation (narrow, documented relaxations)."""
    hist = run_in_fork(simulate, (spec,), timeout=timeout)
    viol, stats = evaluate(spec, hist)
    for o in hist["o2"]:
        viol.append({"sig": {"invariant": o["invariant"], "key": o["key"], "ops_in_flight": o["ops_in_flight"]},
                     "detail": f"task {o['task']} op {o['op']}: {o['raw_key']} changed while only {o['ops_in_flight']} "
                               f"were in flight", "task": o["task"], "op_index": o["op"]})
    if accept is not None:
        viol = [v for v in viol if not accept(v, spec, hist)]
    return hist, viol, stats


def literal(spec, hist):
    s = copy.deepcopy(spec)
    s["schedule"] = hist["schedule"]
    return s


def record(spec, hist, viol, stats, sample_extra=None):
    touch_switches = sum(n for a, b, n in hist["overlap"] if a in TOUCH_FUNCS)
    rec = {
        "violations": [dict(v, replay={"spec": literal(spec, hist), "event_log_sha256": hist["digest"]}) for v in viol],
        "digest": hist["digest"],
        "nontrivial": bool(hist["faults_fired"]) or touch_switches > 0,
        "events": hist["events"], "steps": hist["steps"], "switches": hist["switches"],
        "faults_fired": hist["faults_fired"], "overlap": hist["overlap"], "touch_switches": touch_switches,
        "ops": _op_counts(spec, hist), "stats": stats, "config": spec["config"], "ntasks": len(spec["programs"]),
        "final_globals": sha(hist["final_globals"]), "snapshots": hist["snapshots"],
        "harness_in_sim": hist["harness_errors"],
        "sample": {"seed": spec["seed"], "config": spec["config"],
                   "programs": [[_brief(op) for op in p] for p in spec["programs"]],
                   "faults": spec.get("faults", []), "slices": len(hist["schedule"]), "events": hist["events"],
                   "context_switches": hist["switches"]},
    }
    if hist["harness_errors"]:
        rec["harness_error"] = "; ".join(hist["harness_errors"])[:3000]
    return rec


def _brief(op):
    k = op.get("op")
    if k in ("fire", "zero", "elev"):
        return f"{k}(calc{op['calc']},shot{op['shot']},{(op.get('range') or op.get('dist'))})"
    if k == "fire_tmp":
        return f"fire_tmp(calc{op['calc']},table={op['world']['tables'][0]},{op['range']})"
    if k == "mk":
        return f"mk({op['what']})"
    if k == "new_calc":
        return f"new_calc({op['calc']})"
    return k + "(" + ",".join(f"{a}={op[a]}" for a in sorted(op) if a not in ("op", "world"))[:80] + ")"


def _op_counts(spec, hist):
    c = {}
    for ti, p in enumerate(spec["programs"]):
        for i, op in enumerate(p):
            if i < len(hist["results"][ti]):
                key = op["op"] + ":" + hist["results"][ti][i].get("kind", "?")
                c[key] = c.get(key, 0) + 1
    return c


def replay_spec(rep, accept=None):
    spec = rep["spec"]
    hist, viol, stats = run_spec(spec, accept)
    return {"violations": viol, "digest": hist["digest"], "harness_in_sim": hist["harness_errors"]}


# ---------------------------------------------------------------------------------------------------------------
# minimisation (delta debugging over tasks -> ops -> faults -> schedule)

def _drop_ops(spec, ti, drop):
    s = copy.deepcopy(spec)
    prog = s["programs"][ti]
    drop = set(drop)
    # dependants: danger whose fire is dropped
    for i, op in enumerate(prog):
        if op.get("op") in ("danger", "at_dist") and op["fire"] in drop:
            drop.add(i)
        if op.get("op") == "reread" and op["src"] in drop:
            drop.add(i)
    # a calculator's new_calc must stay if a kept op uses it
    used = {op.get("calc") for i, op in enumerate(prog) if i not in drop and op.get("op") in ("fire", "zero", "elev", "fire_tmp")}
    for i, op in enumerate(prog):
        if op.get("op") == "new_calc" and op["calc"] in used:
            drop.discard(i)
    remap = {}
    new = []
    for i, op in enumerate(prog):
        if i in drop:
            continue
        remap[i] = len(new)
        new.append(op)
    for op in new:
        if op.get("op") in ("danger", "at_dist"):
            op["fire"] = remap[op["fire"]]
        if op.get("op") == "reread":
            op["src"] = remap[op["src"]]
    s["programs"][ti] = new
    nf = []
    for f in s.get("faults", []):
        if f["task"] == ti:
            if f["op"] in remap:
                nf.append(dict(f, op=remap[f["op"]]))
        else:
            nf.append(f)
    s["faults"] = nf
    return s


def minimise_spec(rep, accept=None, max_tests=60, max_wall=75.0, runner=None):
    import time
    want = rep["violation"]["sig"]
    tests = [0]
    t_end = time.monotonic() + max_wall     # harness-side cap only: it bounds how far shrinking goes, never a result

    def fails(spec):
        if tests[0] >= max_tests or time.monotonic() > t_end:
            return None
        tests[0] += 1
        try:
            if runner is not None:
                hist, viol, _ = runner(spec)
            else:
                hist, viol, _ = run_spec(spec, accept, timeout=300)
        except Exception:
            return None
        if any(v["sig"] == want for v in viol):
            return hist
        return None

    cur = rep["spec"]
    cur_hist = fails(cur)
    if cur_hist is None:
        return rep
    # 1. serial schedule?
    cand = copy.deepcopy(cur)
    cand["schedule"] = []
    h = fails(cand)
    if h is not None:
        cur, cur_hist = cand, h
    # 2. drop faults
    if cur.get("faults"):
        cand = copy.deepcopy(cur)
        cand["faults"] = []
        h = fails(cand)
        if h is not None:
            cur, cur_hist = cand, h
        else:
            for k in range(len(cur["faults"])):
                cand = copy.deepcopy(cur)
                del cand["faults"][k]
                h = fails(cand)
                if h is not None:
                    cur, cur_hist = cand, h
                    break
    # 3. empty whole tasks
    for ti in range(len(cur["programs"])):
        if not cur["programs"][ti]:
            continue
        cand = _drop_ops(cur, ti, range(len(cur["programs"][ti])))
        cand["programs"][ti] = []
        h = fails(cand)
        if h is not None:
            cur, cur_hist = cand, h
    # 4. ddmin on each remaining program
    for ti in range(len(cur["programs"])):
        n = len(cur["programs"][ti])
        chunk = max(1, n // 2)
        while chunk >= 1 and n > 0:
            i = 0
            progressed = False
            while i < len(cur["programs"][ti]):
                idx = list(range(i, min(i + chunk, len(cur["programs"][ti]))))
                cand = _drop_ops(cur, ti, idx)
                if len(cand["programs"][ti]) < len(cur["programs"][ti]):
                    h = fails(cand)
                    if h is not None:
                        cur, cur_hist = cand, h
                        progressed = True
                        continue
                i += chunk
            if chunk == 1 and not progressed:
                break
            chunk = max(1, chunk // 2) if chunk > 1 else (1 if progressed else 0)
    # 5. coarsen the schedule: merge adjacent slices
    sched = cur_hist["schedule"]
    if len(sched) > 2:
        for factor in (8, 2):
            merged = []
            for k in range(0, len(sched), factor):
                grp = sched[k:k + factor]
                merged.append([grp[0][0], sum(x[1] for x in grp)])
            cand = copy.deepcopy(cur)
            cand["schedule"] = merged
            h = fails(cand)
            if h is not None:
                cur, cur_hist = cand, h
                break
    out = dict(rep)
    out["spec"] = literal(cur, cur_hist)
    out["event_log_sha256"] = cur_hist["digest"]
    out["minimised"] = {"tests": tests[0], "ops_before": sum(len(p) for p in rep["spec"]["programs"]),
                        "ops_after": sum(len(p) for p in cur["programs"]),
                        "faults_before": len(rep["spec"].get("faults", [])), "faults_after": len(cur.get("faults", [])),
                        "slices_before": len(rep["spec"].get("schedule") or []), "slices_after": len(cur_hist["schedule"])}
    return out


def summarise_sim(records, rule_extra=""):
    faults = {}
    ops = {}
    overlap = set()
    modes = {}
    policies = {}
    tot = {"events": 0, "steps": 0, "switches": 0, "touch_switches": 0, "snapshots": 0}
    st = {"compared": 0, "after_failure": 0, "interrupted": 0, "raising": 0, "solo_runs": 0}
    fault_free = 0
    gstates = set()
    for r in records:
        for f in r["faults_fired"]:
            k = f"{f['kind']}.{f['exc']}"
            faults[k] = faults.get(k, 0) + 1
        if not r["faults_fired"]:
            fault_free += 1
        for k, n in r["ops"].items():
            ops[k] = ops.get(k, 0) + n
        for a, b, n in r["overlap"]:
            overlap.add((a, b))
        modes[r["config"]["mode"]] = modes.get(r["config"]["mode"], 0) + 1
        policies[r["config"]["policy"]] = policies.get(r["config"]["policy"], 0) + 1
        for k in tot:
            tot[k] += r.get(k, 0)
        for k in st:
            st[k] += r["stats"].get(k, 0)
        gstates.add(r["final_globals"])
    touch_pairs = sorted({f"{a}|{b}" for a, b in overlap if a in TOUCH_FUNCS or b in TOUCH_FUNCS})
    return {
        "rule": "one evaluation = one simulated run (world + task programs + schedule + faults from one seed) checked "
                "operation by operation against the solo oracle and the snapshot invariant; non-trivial = at least one "
                "fault fired or at least one cross-task context switch happened while the pre-empted task was inside "
                "a touch-set function; distinct = distinct event-log digests. " + rule_extra,
        "fault_kinds_fired": faults, "fault_free_runs": fault_free,
        "operations_by_kind_and_outcome": ops,
        "logical_time": {"pre_emption_point_events": tot["events"], "integration_steps": tot["steps"]},
        "context_switches": tot["switches"], "context_switches_inside_touch_set": tot["touch_switches"],
        "overlap_pairs_distinct": len(overlap), "overlap_pairs_touch_set": touch_pairs[:60],
        "snapshots_taken": tot["snapshots"],
        "operations_compared_with_solo_oracle": st["compared"],
        "operations_executed_after_a_failure_on_same_calculator": st["after_failure"],
        "operations_interrupted": st["interrupted"], "operations_raising": st["raising"],
        "pre_emption_modes": modes, "policies": policies,
        "distinct_final_global_states": len(gstates),
        "systematic_sweeps": {
            "interrupt_position_sweeps": sum(1 for r in records if (r.get("sweep") or {}).get("kind") == "interrupt"),
            "interrupt_positions_enumerated": sum(len(r["sweep"]["positions"]) for r in records
                                                  if (r.get("sweep") or {}).get("kind") == "interrupt"),
            "depth1_pre_emption_sweeps": sum(1 for r in records if (r.get("sweep") or {}).get("kind") == "depth1"),
            "depth1_positions_enumerated": sum(len(r["sweep"]["positions"]) for r in records
                                               if (r.get("sweep") or {}).get("kind") == "depth1"),
        },
    }


# ---------------------------------------------------------------------------------------------------------------
# systematic sweeps (thorough tier): enumerate crash points / pre-emption points of ONE generated case on a stride

def merge_records(recs, kind, positions):
    """fold the records of a sweep into one run record (counts summed, violations concatenated)"""
    base = recs[0]
    out = dict(base)
    out["violations"] = [v for r in recs for v in r["violations"]]
    out["digest"] = sha([r["digest"] for r in recs])
    out["nontrivial"] = any(r["nontrivial"] for r in recs)
    for k in ("events", "steps", "switches", "touch_switches", "snapshots"):
        out[k] = sum(r.get(k, 0) for r in recs)
    out["faults_fired"] = [f for r in recs for f in r["faults_fired"]]
    ov = {}
    for r in recs:
        for a, b, n in r["overlap"]:
            ov[(a, b)] = ov.get((a, b), 0) + n
    out["overlap"] = sorted([[a, b, n] for (a, b), n in ov.items()])
    ops = {}
    st = {}
    for r in recs:
        for k, n in r["ops"].items():
            ops[k] = ops.get(k, 0) + n
        for k, n in r["stats"].items():
            st[k] = st.get(k, 0) + n
    out["ops"] = ops
    out["stats"] = st
    out["sweep"] = {"kind": kind, "positions": positions, "runs": len(recs)}
    out["sample"] = dict(base["sample"], sweep={"kind": kind, "positions": positions[:40], "runs": len(recs)})
    herr = [r["harness_error"] for r in recs if "harness_error" in r]
    if herr:
        out["harness_error"] = "; ".join(herr)[:3000]
    return out


def sweep_interrupts(spec, accept=None, n_positions=24, post=None):
    """base run without faults, then the same case with ONE interrupt at each of n positions on a stride through
    the events of one operation that creates in-flight state"""
    import random
    base = copy.deepcopy(spec)
    base["faults"] = []
    hist, viol, stats = run_spec(base, accept)
    if post:
        viol = post(base, hist, viol)
    recs = [record(base, hist, viol, stats)]
    rng = random.Random(spec["seed"] ^ 0x5EED)
    cands = [(ti, i, hist["results"][ti][i].get("events", 0)) for ti, p in enumerate(base["programs"])
             if (base.get("roles") or {}).get(str(ti), "client") == "client"
             for i, op in enumerate(p) if op.get("op") in ("zero", "fire", "elev", "mk", "new_calc", "powder")
             and i < len(hist["results"][ti]) and hist["results"][ti][i].get("events", 0) > 2]
    if not cands:
        return merge_records(recs, "interrupt", [])
    zs = [c for c in cands if base["programs"][c[0]][c[1]]["op"] == "zero"]
    ti, i, ev = rng.choice(zs if zs and rng.random() < 0.6 else cands)
    stride = max(1, ev // n_positions)
    positions = list(range(1 + rng.randrange(stride), ev + 1, stride))[:n_positions + 2]
    for at in positions:
        s = copy.deepcopy(base)
        s["faults"] = [{"kind": "interrupt", "task": ti, "op": i, "at": at,
                        "exc": "MemoryError" if rng.random() < 0.2 else "SimInterrupt"}]
        h, v, st = run_spec(s, accept)
        if post:
            v = post(s, h, v)
        recs.append(record(s, h, v, st))
    return merge_records(recs, "interrupt", positions)


def sweep_depth1(spec, accept=None, n_positions=24, post=None, a_task=None, only_inside=None):
    """two tasks: task A runs to its i-th pre-emption point, task B to completion, then A resumes - for i on a
    stride through all of A's points (a probabilistic scheduler reaches a given single pre-emption only by luck)"""
    import random
    if len(spec["programs"]) < 2:
        return None
    base = copy.deepcopy(spec)
    base["faults"] = []
    base["programs"] = base["programs"][:2]
    base["roles"] = {k: v for k, v in (base.get("roles") or {}).items() if k in ("0", "1")}
    rng = random.Random(spec["seed"] ^ 0xD1)
    a, b = (0, 1) if rng.random() < 0.5 else (1, 0)
    if a_task is not None:
        a, b = a_task, 1 - a_task
    s0 = copy.deepcopy(base)
    s0["schedule"] = [[a, 1 << 60]]           # A to completion, then B
    if only_inside:
        s0["record_where_task"] = a
    hist, viol, stats = run_spec(s0, accept)
    if post:
        viol = post(s0, hist, viol)
    recs = [record(s0, hist, viol, stats)]
    ev_a = sum(n for t, n in hist["schedule"] if t == a)
    stride = max(1, ev_a // n_positions)
    positions = list(range(1 + rng.randrange(stride), ev_a, stride))[:n_positions + 2]
    if only_inside:
        # every pre-emption point at which A is inside one of the named functions themselves (not their helpers)
        inside = [k + 1 for k, fn in enumerate(hist.get("where_log") or []) if fn in only_inside]
        if len(inside) > n_positions:
            st = len(inside) / float(n_positions)
            inside = [inside[int(k * st)] for k in range(n_positions)]
        positions = inside
    for i in positions:
        s = copy.deepcopy(base)
        s["schedule"] = [[a, i], [b, 1 << 60]]
        h, v, st = run_spec(s, accept)
        if post:
            v = post(s, h, v)
        recs.append(record(s, h, v, st))
    return merge_records(recs, "depth1", positions)
