"""Harness-side (pinned, library-independent) tables: unit names per dimension, preferred-unit slots, shipped tables.

These are deliberately *not* read from the library: generators must not execute library code in the worker image
(event counts depend on what has run before), and an oracle table must not change when the code under test does."""

DIMS = {
    "Angular": ["Radian", "Degree", "MOA", "Mil", "MRad", "Thousandth", "InchesPer100Yd", "CmPer100m", "OClock"],
    "Distance": ["Inch", "Foot", "Yard", "Mile", "NauticalMile", "Millimeter", "Centimeter", "Meter", "Kilometer",
                 "Line"],
    "Energy": ["FootPound", "Joule"],
    "Pressure": ["MmHg", "InHg", "Bar", "hPa", "PSI"],
    "Temperature": ["Fahrenheit", "Celsius", "Kelvin", "Rankin"],
    "Velocity": ["MPS", "KMH", "FPS", "MPH", "KT"],
    "Weight": ["Grain", "Ounce", "Gram", "Pound", "Kilogram", "Newton"],
}
UNIT_DIM = {u: d for d, us in DIMS.items() for u in us}
ALL_UNITS = [u for d in sorted(DIMS) for u in DIMS[d]]
assert len(ALL_UNITS) == 41

# preferred-unit slot -> (dimension, documented default)
SLOTS = {
    "angular": ("Angular", "Degree"),
    "distance": ("Distance", "Yard"),
    "velocity": ("Velocity", "FPS"),
    "pressure": ("Pressure", "InHg"),
    "temperature": ("Temperature", "Fahrenheit"),
    "diameter": ("Distance", "Inch"),
    "length": ("Distance", "Inch"),
    "weight": ("Weight", "Grain"),
    "adjustment": ("Angular", "Mil"),
    "drop": ("Distance", "Inch"),
    "energy": ("Energy", "FootPound"),
    "ogw": ("Weight", "Pound"),
    "sight_height": ("Distance", "Inch"),
    "target_height": ("Distance", "Inch"),
    "twist": ("Distance", "Inch"),
}
SLOT_NAMES = list(SLOTS)

SHIPPED_TABLES = ["TableG1", "TableG7", "TableG2", "TableG5", "TableG6", "TableG8", "TableGI", "TableGS", "TableRA4"]

# documented solver-setting defaults (README / trajectory_calc/__init__.py docstrings)
CONFIG_DEFAULTS = {
    "max_calc_step_size_feet": 0.5,
    "chart_resolution": 0.2,
    "cZeroFindingAccuracy": 0.000005,
    "cMinimumVelocity": 50.0,
    "cMaximumDrop": -15000.0,
    "cMaxIterations": 20,
    "cGravityConstant": -32.17405,
    "cMinimumAltitude": -1410.748,
}

# Units in which small magnitudes are safe for angles (angles must stay within one turn)
LINEAR_ANGLE_UNITS = ["Radian", "Degree", "MOA", "Mil", "MRad", "Thousandth"]
