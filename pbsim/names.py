"""Harness-side (pinned, library-independent) tables: unit names per dimension, preferred-unit slots, shipped tables.

These are deliberately *not* read from the library: generators must not execute library code in the worker image
(event counts depend on what has run before), and an oracle table must not change when the code under test does."""

DIMS = {
    "Angular": ["Radian", "Degree", "MOA", "Mil", "MRad", "Thousandth", "InchesPer100Yd", "CmPer100m", "OClock"],
    "Distance": ["Inch", "Foot", "Yard", "Mile", "NauticalMile", "Millimeter", "Centimeter", "Meter", "Kilometer",
                 "Line"],
    "Energy": ["FootPound", "Joule"],
    "Pressure": ["MmHg", "InHg", "Bar", "hPa", "PSI"],
    "Temperature": ["Fahrenheit", "Celsius", "Kelvin", "Rankin"],
    "Velocity": ["MPS", "KMH", "FPS", "MPH", "KT"],
    "Weight": ["Grain", "Ounce", "Gram", "Pound", "Kilogram", "Newton"],
}
UNIT_DIM = {u: d for d, us in DIMS.items() for u in us}
ALL_UNITS = [u for d in sorted(DIMS) for u in DIMS[d]]
assert len(ALL_UNITS) == 41

# preferred-unit slot -> (dimension, documented default)
SLOTS = {
    "angular": ("Angular", "Degree"),
    "distance": ("Distance", "Yard"),
    "velocity": ("Velocity", "FPS"),
    "pressure": ("Pressure", "InHg"),
    "temperature": ("Temperature", "Fahrenheit"),
    "diameter": ("Distance", "Inch"),
    "length": ("Distance", "Inch"),
    "weight": ("Weight", "Grain"),
    "adjustment": ("Angular", "Mil"),
    "drop": ("Distance", "Inch"),
    "energy": ("Energy", "FootPound"),
    "ogw": ("Weight", "Pound"),
    "sight_height": ("Distance", "Inch"),
    "target_height": ("Distance", "Inch"),
    "twist": ("Distance", "Inch"),
}
SLOT_NAMES = list(SLOTS)

SHIPPED_TABLES = ["TableG1", "TableG7", "TableG2", "TableG5", "TableG6", "TableG8", "TableGI", "TableGS", "TableRA4"]

# documented solver-setting defaults (README / trajectory_calc/__init__.py docstrings)
CONFIG_DEFAULTS = {
    "max_calc_step_size_feet": 0.5,
    "chart_resolution": 0.2,
    "cZeroFindingAccuracy": 0.000005,
    "cMinimumVelocity": 50.0,
    "cMaximumDrop": -15000.0,
    "cMaxIterations": 20,
    "cGravityConstant": -32.17405,
    "cMinimumAltitude": -1410.748,
}

# Units in which small magnitudes are safe for angles (angles must stay within one turn)
LINEAR_ANGLE_UNITS = ["Radian", "Degree", "MOA", "Mil", "MRad", "Thousandth"]

# ---------------------------------------------------------------------------------------------------------------
# Pinned copy of the documented alias table (py_ballisticcalc.unit.UnitAliases at the pinned commit), the oracle for
# C18's name clause.  It is deliberately NOT read from the library.  The one malformed entry of the original table,
# the single string 'in/100yard, inper100yd', is pinned as the two aliases it evidently spells.
UNIT_ALIASES = {
    "Radian": ["radian", "rad"],
    "Degree": ["degree", "deg"],
    "MOA": ["moa"],
    "Mil": ["mil"],
    "MRad": ["mrad"],
    "Thousandth": ["thousandth", "ths"],
    "InchesPer100Yd": ["inch/100yd", "in/100yd", "in/100yard", "inper100yd"],
    "CmPer100m": ["centimeter/100m", "cm/100m", "cm/100meter", "centimeter/100meter", "cmper100m"],
    "OClock": ["hour", "h"],
    "Inch": ["inch", "in"],
    "Foot": ["foot", "feet", "ft"],
    "Yard": ["yard", "yd"],
    "Mile": ["mile", "mi", "mi."],
    "NauticalMile": ["nauticalmile", "nm", "nmi"],
    "Millimeter": ["millimeter", "mm"],
    "Centimeter": ["centimeter", "cm"],
    "Meter": ["meter", "m"],
    "Kilometer": ["kilometer", "km"],
    "Line": ["line", "ln", "liniа"],
    "FootPound": ["footpound", "foot-pound", "ft⋅lbf", "ft⋅lb", "foot*pound", "ft*lbf", "ft*lb"],
    "Joule": ["joule", "J"],
    "MmHg": ["mmHg"],
    "InHg": ["inHg", "″Hg"],
    "Bar": ["bar"],
    "hPa": ["hectopascal", "hPa"],
    "PSI": ["psi", "lbf/in2"],
    "Fahrenheit": ["fahrenheit", "°F", "F", "degF"],
    "Celsius": ["celsius", "°C", "C", "degC"],
    "Kelvin": ["kelvin", "°K", "K", "degK"],
    "Rankin": ["rankin", "°R", "R", "degR"],
    "MPS": ["meter/second", "m/s", "meter/s", "m/second", "mps"],
    "KMH": ["kilometer/hour", "km/h", "kilometer/h", "km/hour", "kmh"],
    "FPS": ["foot/second", "feet/second", "ft/s", "foot/s", "feet/s", "ft/second", "fps"],
    "MPH": ["mile/hour", "mi/h", "mile/h", "mi/hour", "mph"],
    "KT": ["knot", "kn", "kt"],
    "Grain": ["grain", "gr", "grn"],
    "Ounce": ["ounce", "oz"],
    "Gram": ["gram", "g"],
    "Pound": ["pound", "lb"],
    "Kilogram": ["kilogram", "kilogramme", "kg"],
    "Newton": ["newton", "N"],
}
assert sorted(UNIT_ALIASES) == sorted(ALL_UNITS)


def all_names():
    """[(name string as documented, unit)] : 41 enumeration names + every alias"""
    out = []
    for u in ALL_UNITS:
        out.append((u, u))
        for a in UNIT_ALIASES[u]:
            out.append((a, u))
    return out


UNKNOWN_NAMES = ["xyz", "", "meterz", "footpounds", "yards", "inchs", "deg.", "kelvins", "m/sec", "set", "defaults",
                 "__doc__", "__class__", "__init__", "__dict__", "__module__", "mro", "unit", "none", "0", "1.5"]
