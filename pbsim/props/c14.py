"""C14 - multi-BC drag models realise the interpolated BC and leave their inputs intact.

History machine over construction histories WITH ALIASING: tables are shipped dict lists, DragDataPoint lists taken
from models built earlier in the same history, or copies; BC-point lists are reused across builds.  One task, or two
tasks sharing tables/models (each with private point lists) interleaved at line/opcode granularity inside
DragModelMultiBC / make_data_points, with interrupts injected inside builds.  Reference model (O3) built from pristine
float copies: effective BC = clamped piecewise-linear interpolation in Mach; (O2) inputs and sibling models unchanged."""
import copy
import math

from pbsim import gen, lib
from pbsim.forkrun import run_in_fork
from pbsim.names import SHIPPED_TABLES
from pbsim.sched import BudgetExceeded, LiteralDecider, PrngDecider, Sim, SimInterrupt
from pbsim.simprop import minimise_spec
from pbsim.util import fhex, rng_for, sha

ID = "C14"
LEVEL = "exploration"
STUBS = ("the scheduler (baton threads, line/opcode pre-emption inside drag_model.py), injected interrupts; the "
         "reference model (clamped piecewise-linear interpolation of BC in Mach over pristine float copies of the "
         "input table) is harness code with the standard sea-level speed of sound pinned")
ASSUMPTIONS = [
    "seeded sampling of construction histories, aliasing topologies and interleavings; evidence, not proof",
    "effective BC compared to 1e-12 relative (worst deviation of the unchanged code on un-aliased inputs: 2.5e-15)",
    "in-place REORDERING of the caller's point list is recorded but not flagged: the property protects the points "
    "and the table, not list order",
    "two-task histories share tables and models but not point lists (the property quantifies over histories, not "
    "over races on one list object)",
    "V -> Mach through the standard sea-level speed of sound sqrt(288.15 K) * 20.0467 m/s (pinned constants)",
]
MACH1_MPS = math.sqrt(15.0 + 273.15) * 20.0467
MPS = {"FPS": 1 / 3.2808399, "MPS": 1.0, "KMH": 1 / 3.6, "MPH": 1 / 2.23693629, "KT": 1 / 1.94384449}
REL = 1e-12


def plan(tier):
    return {"runs": 4000} if tier == "quick" else {"runs": 80000, "budget": 900.0}


def gen_points(rng):
    n = rng.randint(1, 6)
    if rng.random() < 0.15:
        n = rng.randint(17, 45)          # long lists: denser than the table in places (several points per table gap)
    pts = []
    used = set()
    while len(pts) < n:
        bc = round(rng.uniform(0.05, 1.2), 4)
        if rng.random() < 0.5:
            m = round(rng.uniform(0.2, 4.5), 3)
            if rng.random() < 0.25:
                m = gen.pick(rng, [0.5, 0.7, 0.9, 0.95, 1.0, 1.05, 1.2, 1.5, 2.0, 2.5, 3.0])   # exactly ON a table node
            if m in used:
                continue
            used.add(m)
            pts.append([bc, "Mach", m])
        else:
            u = gen.pick(rng, sorted(MPS))
            mach = rng.uniform(0.3, 4.0)
            v = round(mach * MACH1_MPS / MPS[u], 2)
            key = round(v * MPS[u] / MACH1_MPS, 3)
            if key in used:
                continue
            used.add(key)
            pts.append([bc, u, v])
    return pts


def gen_spec(seed, tier):
    rng = rng_for(seed, "program")
    ntasks = 1 if rng.random() < 0.6 else 2
    nlists = rng.randint(1, 3)
    spec = {"seed": seed, "points": [], "programs": [], "roles": {}, "faults": []}
    owner = {}
    spec["velocity_unit"] = gen.pick(rng, ["FPS", "FPS", "MPS", "KMH", "MPH", "KT"])
    for t in range(ntasks):
        for _ in range(nlists):
            pts = gen_points(rng)
            if rng.random() < 0.3:
                # bare numbers: they mean the preferred velocity unit in force when the point is constructed
                pts = [[bc, "bare", round(v * MPS[how] / MPS[spec["velocity_unit"]], 2)] if how in MPS else [bc, how, v]
                       for bc, how, v in pts]
            spec["points"].append(pts)
            owner.setdefault(t, []).append(len(spec["points"]) - 1)
            if rng.random() < 0.4:
                # a sibling list at the SAME velocities / Mach numbers with different BCs (a fitting loop over fixed bands)
                spec["points"].append([[round(rng.uniform(0.05, 1.2), 4), how, v] for bc, how, v in pts])
                owner[t].append(len(spec["points"]) - 1)
    n_models = [0]
    model_owner = []

    def tref():
        r = rng.random()
        if r < 0.45 or not model_owner:
            return {"shipped": gen.pick(rng, SHIPPED_TABLES)}
        k = rng.randrange(len(model_owner))
        return {"from_model": k} if r < 0.85 else {"copy_of_model": k}

    # model indices are assigned in program-generation order per task, then interleaved at run time: a task may only
    # refer to models built EARLIER BY ITSELF (its own program order) so the reference is always resolvable
    for t in range(ntasks):
        prog = []
        mine = []
        for _ in range(rng.randint(3, 15 if ntasks == 1 else 8)):
            r = rng.random()

            def own_tref():
                rr = rng.random()
                if ntasks == 2 and rng.random() < 0.3:
                    # a model of the OTHER task (exists or not depending on the schedule; see resolve())
                    return {"from_model": f"{1 - t}.{rng.randrange(4)}"}
                if rr < 0.45 or not mine:
                    return {"shipped": gen.pick(rng, SHIPPED_TABLES)}
                k = gen.pick(rng, mine)
                return {"from_model": k} if rr < 0.85 else {"copy_of_model": k}
            dims = None
            if rng.random() < 0.5:
                dims = {"weight": [round(rng.uniform(50, 300), 1), gen.pick(rng, ["Grain", "Gram"])],
                        "diameter": [round(rng.uniform(0.2, 0.5), 3), "Inch"]}
                if rng.random() < 0.5:
                    dims["length"] = [round(rng.uniform(0.5, 2.0), 2), "Inch"]
            mid = f"{t}.{len(mine)}"
            if r < 0.55:
                prog.append({"op": "build_mbc", "points": gen.pick(rng, owner[t]), "table": own_tref(), "dims": dims, "id": mid})
                mine.append(mid)
            elif r < 0.7:
                prog.append({"op": "build_plain", "bc": round(rng.uniform(0.1, 0.9), 3), "table": own_tref(), "dims": dims, "id": mid})
                mine.append(mid)
            elif r < 0.85 and any(o["op"] == "build_mbc" for o in prog):
                src = gen.pick(rng, [o for o in prog if o["op"] == "build_mbc"])
                prog.append(dict(src, op="build_mbc", id=mid, rebuild_of=src["id"]))
                mine.append(mid)
            elif r < 0.9 and any(o["op"] == "build_mbc" for o in prog):
                # the caller changes the BC of one of ITS points and builds again: the new model must follow the new value
                src = gen.pick(rng, [o for o in prog if o["op"] == "build_mbc"])
                prog.append({"op": "edit_bc", "points": src["points"], "k": rng.randrange(6), "bc": round(rng.uniform(0.05, 1.2), 4)})
                prog.append(dict(src, op="build_mbc", id=mid, after_edit=True))
                mine.append(mid)
            elif r < 0.95:
                prog.append({"op": "single_vs_plain", "bc": round(rng.uniform(0.1, 0.9), 3),
                             "how": gen.pick(rng, [["Mach", round(rng.uniform(0.5, 3), 2)], ["FPS", round(rng.uniform(800, 3000), 1)]]),
                             "table": own_tref()})
            elif mine:
                prog.append({"op": "fire_short", "model": gen.pick(rng, mine)})
        _add_caller_side_ops(prog, rng, t)
        spec["programs"].append(prog)
        spec["roles"][str(t)] = "client"
    spec["config"] = {"mode": "line", "policy": gen.pick(rng, ["uniform", "pct", "boundary"]),
                      "mean_run": gen.pick(rng, [1, 3, 10, 100, 2000]), "opcode": rng.random() < 0.4,
                      "pct_depth": rng.randint(1, 3)}
    frng = rng_for(seed, "faults")
    if frng.random() < 0.4:
        cands = [(t, i) for t, p in enumerate(spec["programs"]) for i, op in enumerate(p) if op["op"].startswith("build")]
        frng.shuffle(cands)
        for t, i in cands[:frng.randint(1, 2)]:
            spec["faults"].append({"kind": "interrupt", "task": t, "op": i, "at": frng.randint(1, 400),
                                   "exc": "MemoryError" if frng.random() < 0.25 else "SimInterrupt"})
    return spec


def _add_caller_side_ops(prog, rng, t):
    """What a caller may do with ITS OWN objects between builds (side stream: the other draws of a seed stay as they were):
    * build from a dict-list table it owns, edit one CD of that table in place, build again (a custom-curve truing loop):
      the second model must follow the edited table;
    * let a model go and keep only its data-point list (`curve = model.drag_table`): the kept list must stay what it was
      through every later build, and can itself be passed as a table."""
    import random as _random
    r2 = _random.Random(repr(rng.getstate()[1][:6]) + "caller")
    builds = [o for o in prog if o["op"] == "build_mbc"]
    n_extra = 0
    if builds and r2.random() < 0.35:
        key = f"{t}.0"
        name = gen.pick(r2, SHIPPED_TABLES)
        src = gen.pick(r2, builds)
        first = dict(src, table={"own": key, "name": name}, id=f"{t}.x{n_extra}")
        first.pop("rebuild_of", None)
        n_extra += 1
        seq = [first]
        for _ in range(r2.randint(1, 3)):
            seq.append({"op": "edit_cd", "own": key, "name": name, "row": r2.randrange(80),
                        "factor": round(r2.uniform(0.8, 1.25), 3)})
            seq.append(dict(first, id=f"{t}.x{n_extra}"))
            n_extra += 1
        at = r2.randint(0, len(prog))
        prog[at:at] = seq
    if r2.random() < 0.35:
        ids = [(i, o["id"]) for i, o in enumerate(prog) if o["op"] in ("build_mbc", "build_plain")]
        if ids:
            i, mid = gen.pick(r2, ids)
            at = r2.randint(i + 1, len(prog))
            prog.insert(at, {"op": "drop_keep", "model": mid})
            later = [o for o in prog[at + 1:] if o["op"] in ("build_mbc", "build_plain")]
            for o in later:
                if r2.random() < 0.4:
                    o["table"] = {"kept": 0}


# ---------------------------------------------------------------------------------------------------------------
# child side

def _tfloats(table):
    out = []
    for p in table:
        if isinstance(p, dict):
            out.append((p["Mach"], p["CD"]))
        else:
            out.append((p.Mach, p.CD))
    return out


def _interp(points, mach):
    """clamped piecewise-linear interpolation; points sorted by Mach: [(mach, bc)]"""
    if mach <= points[0][0]:
        return points[0][1]
    if mach >= points[-1][0]:
        return points[-1][1]
    for (x0, y0), (x1, y1) in zip(points, points[1:]):
        if x0 <= mach <= x1:
            if x1 == x0:
                return y0
            return y0 + (y1 - y0) * (mach - x0) / (x1 - x0)
    return points[-1][1]


def _model_snap(m):
    return {"table": [(fhex(a), fhex(b)) for a, b in _tfloats(m.drag_table)], "BC": fhex(float(m.BC)),
            "weight": fhex(m.weight.raw_value), "diameter": fhex(m.diameter.raw_value), "length": fhex(m.length.raw_value)}


def simulate(spec):
    pb = lib.pb
    lib.reset_globals()
    U = pb.Unit
    viol = []
    seen = set()
    cur = {"t": 0, "i": 0}

    def sink(inv, kind, detail):
        key = (inv, kind)
        if key in seen:
            return
        seen.add(key)
        viol.append({"sig": {"invariant": inv, "table_kind": kind}, "detail": f"task {cur['t']} op {cur['i']}: {detail}"})

    shipped0 = {n: [(fhex(a), fhex(b)) for a, b in _tfloats(getattr(pb, n))] for n in SHIPPED_TABLES}
    plists = []
    ppoints = []           # [object, pristine fields, expected mach, bc]  (bc / pristine follow the caller's own edits)
    vunit = spec.get("velocity_unit", "FPS")
    pb.PreferredUnits.velocity = getattr(U, vunit)          # plain assignment, as the README recommends
    for pts in spec["points"]:
        lst = []
        for bc, how, val in pts:
            if how == "Mach":
                p, exp_mach = pb.BCPoint(bc, Mach=val), val
            elif how == "bare":
                p, exp_mach = pb.BCPoint(bc, V=val), val * MPS[vunit] / MACH1_MPS
            else:
                p, exp_mach = pb.BCPoint(bc, V=getattr(U, how)(val)), val * MPS[how] / MACH1_MPS
            lst.append(p)
            ppoints.append([p, (fhex(float(p.BC)), fhex(float(p.Mach)), fhex(float(p.V.raw_value))), exp_mach, bc])
        plists.append(lst)
    # V -> Mach law for the points themselves
    for p, _, exp_mach, bc in ppoints:
        if abs(p.Mach - exp_mach) > 1e-9 * max(1.0, abs(exp_mach)):
            sink("law.point_mach", "-", f"BCPoint Mach {p.Mach!r}, expected {exp_mach!r}")
    models = {}            # id -> model
    msnaps = {}            # id -> snapshot at construction
    recipes = {}           # recipe key -> snapshot of first build
    pending = {}           # task -> (op, in_table floats, tkind, input table object)
    calc = pb.Calculator(_config={"max_calc_step_size_feet": 8.0})
    own_tables = {}        # key -> [dict list owned by the caller, version]
    kept = []              # [data-point list kept by the caller after its model was dropped, floats at that time]

    def own_table(key, name):
        if key not in own_tables:
            own_tables[key] = [[dict(p) for p in getattr(pb, name)], 0]
        return own_tables[key]

    def resolve(tr):
        """-> (table object, kind, recipe key part); a model of the other task that does not exist yet (schedule
        dependent) falls back to a shipped table and the recipe key says so"""
        if "shipped" in tr:
            return getattr(pb, tr["shipped"]), "shipped", tr["shipped"]
        if "own" in tr:
            tab, ver = own_table(tr["own"], tr["name"])
            return tab, "own_dicts", f"o:{tr['own']}:v{ver}"
        if "kept" in tr:
            if kept:
                return kept[tr["kept"] % len(kept)][0], "kept", f"k:{tr['kept'] % len(kept)}"
            return getattr(pb, "TableG1"), "shipped", "TableG1"
        if "from_model" in tr:
            m = models.get(tr["from_model"])
            if m is not None:
                return m.drag_table, "from_model", "m:" + tr["from_model"]
            return getattr(pb, "TableG1"), "shipped", "TableG1"
        m = models.get(tr["copy_of_model"])
        if m is None:
            return getattr(pb, "TableG1"), "shipped", "TableG1"
        return [pb.DragDataPoint(p.Mach, p.CD) for p in m.drag_table], "copy", "c:" + tr["copy_of_model"]

    def dims_kw(d):
        if not d:
            return {}
        return {k: getattr(U, v[1])(v[0]) for k, v in d.items()}

    def exec_op(t, op):
        cur["t"], cur["i"] = t.idx, t.op_idx
        k = op["op"]
        t.harness = 1
        if k in ("build_mbc", "build_plain", "single_vs_plain"):
            table, tkind, tkey = resolve(op["table"])
            pending[t.idx] = (op, [(a, b) for a, b in _tfloats(table)], tkind, table, tkey)
        t.harness = 0
        try:
            if k == "build_mbc":
                m = pb.DragModelMultiBC(plists[op["points"]], table, **dims_kw(op.get("dims")))
                t.harness = 1
                models[op["id"]] = m
                return {"kind": "ok", "digest": sha(_model_snap(m))}
            if k == "build_plain":
                m = pb.DragModel(op["bc"], table, **dims_kw(op.get("dims")))
                t.harness = 1
                models[op["id"]] = m
                return {"kind": "ok", "digest": sha(_model_snap(m))}
            if k == "single_vs_plain":
                how, val = op["how"]
                pt = pb.BCPoint(op["bc"], Mach=val) if how == "Mach" else pb.BCPoint(op["bc"], V=getattr(U, how)(val))
                a = pb.DragModelMultiBC([pt], table)
                b = pb.DragModel(op["bc"], table)
                t.harness = 1
                fa, fb = _tfloats(a.drag_table), _tfloats(b.drag_table)
                worst = 0.0
                for (ma, ca), (mb, cb) in zip(fa, fb):
                    x, y = ca / a.BC, cb / b.BC
                    worst = max(worst, abs(x - y) / max(abs(y), 1e-300))
                if len(fa) != len(fb) or worst > REL:
                    sink("law.single_point_not_plain", pending[t.idx][2],
                         f"single-point multi-BC model differs from the plain model: worst relative CD/BC gap {worst:.3e}")
                return {"kind": "ok", "digest": fhex(worst)}
            if k == "edit_bc":
                t.harness = 1
                lst = plists[op["points"]]
                pt = lst[op["k"] % len(lst)]
                pt.BC = op["bc"]                       # the caller's own edit of its own object
                for rec_ in ppoints:
                    if rec_[0] is pt:
                        rec_[1] = (fhex(float(pt.BC)), rec_[1][1], rec_[1][2])
                        rec_[3] = op["bc"]
                return {"kind": "ok", "digest": "edited"}
            if k == "edit_cd":
                t.harness = 1
                ent = own_table(op["own"], op["name"])
                row = ent[0][op["row"] % len(ent[0])]
                row["CD"] = round(row["CD"] * op["factor"], 6)          # the caller's own edit of its own table
                ent[1] += 1
                return {"kind": "ok", "digest": "edited"}
            if k == "drop_keep":
                t.harness = 1
                m = models.pop(op["model"], None)
                msnaps.pop(op["model"], None)
                if m is not None:
                    kept.append([m.drag_table, [(fhex(a), fhex(b)) for a, b in _tfloats(m.drag_table)]])
                    del m
                    import gc
                    gc.collect()
                return {"kind": "ok", "digest": "dropped"}
            if k == "fire_short":
                m = models.get(op["model"])
                if m is None:
                    t.harness = 1
                    return {"kind": "ok", "digest": "no model"}
                # models built from models compound the BC scaling; a drag thousands of times the standard one makes
                # the solver's explicit step oscillate for hours (see DESIGN section 7, notes): bounded by a step budget
                shot = pb.Shot(pb.Weapon(U.Inch(2)), pb.Ammo(m, U.FPS(2600)), atmo=lib.SimAtmo())
                t.step_budget = 5000
                hit = calc.fire(shot, U.Yard(100), U.Yard(50))
                t.harness = 1
                return {"kind": "ok", "digest": [fhex(r.height.raw_value) for r in hit.trajectory]}
        except BudgetExceeded:
            t.harness = 1
            t.step_budget = None
            return {"kind": "ok", "digest": "step budget: not this property's business"}
        except SimInterrupt:
            t.harness = 1
            raise
        except MemoryError:
            t.harness = 1
            if t.fired is not None:
                raise
            return {"kind": "exc", "digest": "MemoryError"}
        except Exception as e:  # noqa
            t.harness = 1
            return {"kind": "exc", "digest": type(e).__name__ + ":" + str(e)[:80]}
        raise ValueError(k)

    def check_after(t, i):
        op = t.program[i]
        res = t.results[-1] if t.results else {}
        pend = pending.pop(t.idx, None)
        # (O2) shipped tables
        for n, snap0 in shipped0.items():
            now = [(fhex(a), fhex(b)) for a, b in _tfloats(getattr(pb, n))]
            if now != snap0:
                sink("inputs.shipped_table_changed", pend[2] if pend else "-", f"shipped table {n} changed")
                shipped0[n] = now
        # (O2) the table passed in (whatever it was)
        if pend is not None:
            _, in_floats, tkind, table, _tk = pend
            if [(fhex(a), fhex(b)) for a, b in _tfloats(table)] != [(fhex(a), fhex(b)) for a, b in in_floats]:
                sink("inputs.table_changed", tkind, f"the table passed to {op['op']} ({tkind}) was altered by the call"
                                                   f"{' (interrupted)' if res.get('kind') == 'interrupted' else ''}")
        # (O2) data-point lists the caller kept after letting their model go
        for n, (tab, f0) in enumerate(kept):
            now = [(fhex(a), fhex(b)) for a, b in _tfloats(tab)]
            if now != f0:
                sink("inputs.kept_table_changed", pend[2] if pend else "-",
                     f"a data-point list kept by the caller after its model was dropped changed when {op['op']} ran")
                kept[n][1] = now
        # (O2) points
        for p, f0, _, _ in ppoints:
            if (fhex(float(p.BC)), fhex(float(p.Mach)), fhex(float(p.V.raw_value))) != f0:
                sink("inputs.point_changed", pend[2] if pend else "-", "a BC point passed in was altered")
                break
        # (O2) sibling models
        for mid, m in list(models.items()):
            s = _model_snap(m)
            if mid not in msnaps:
                msnaps[mid] = s
            elif s != msnaps[mid]:
                sink("models.sibling_changed", pend[2] if pend else "-",
                     f"model {mid} built earlier changed when {op['op']} ran on a table of kind {pend[2] if pend else '-'}")
                msnaps[mid] = s
        # (O3) law for the model just built
        if res.get("kind") == "ok" and op["op"] == "build_mbc" and pend is not None:
            m = models[op["id"]]
            _, in_floats, tkind, _, tkey = pend
            pts = sorted(((x[2], x[3]) for x in ppoints if any(x[0] is q for q in plists[op["points"]])), key=lambda z: z[0])
            out = _tfloats(m.drag_table)
            if len(out) != len(in_floats):
                sink("law.table_length", tkind, f"model has {len(out)} points, table {len(in_floats)}")
            else:
                for (mi, ci), (mo, co) in zip(in_floats, out):
                    if mi != mo:
                        sink("law.mach_nodes", tkind, f"Mach node {mo!r} != {mi!r}")
                        break
                    if co == 0:
                        continue
                    eff = ci * m.BC / co
                    exp = _interp(pts, mi)
                    if abs(eff - exp) > REL * max(abs(exp), 1e-300) * 10:
                        sink("law.effective_bc", tkind, f"at Mach {mi}: effective BC {eff!r}, interpolation of the points gives {exp!r}")
                        break
            # same recipe => same model
            key = sha([op["points"], [x[3] for x in ppoints if any(x[0] is q for q in plists[op["points"]])], tkey, op.get("dims")])
            s = _model_snap(m)
            if key in recipes and recipes[key] != s:
                sink("repeat.differs", tkind, f"building again from the same inputs gave a different model "
                                              f"(recipe first used for another build; table kind {tkind})")
            recipes.setdefault(key, s)

    def on_boundary(sim, t, i, phase):
        if phase == "end":
            cur["t"], cur["i"] = t.idx, i
            check_after(t, i)

    cfg = spec["config"]
    nops = sum(len(p) for p in spec["programs"])
    if spec.get("schedule") is not None:
        dec = LiteralDecider(spec["schedule"])
    else:
        dec = PrngDecider(rng_for(spec["seed"], "schedule"), cfg["policy"], cfg["mean_run"], max(10, nops * 1500),
                          len(spec["programs"]), cfg.get("pct_depth", 2))
    sim = Sim(spec["programs"], exec_op, dec, mode=cfg["mode"], opcode=cfg.get("opcode", False),
              faults=spec.get("faults"), on_boundary=on_boundary, event_budget=3_000_000)
    sim.run()
    pb.PreferredUnits.defaults()
    results = [t.results for t in sim.tasks]
    kinds = {}
    for p in spec["programs"]:
        for op in p:
            tk = "-" if "table" not in op else sorted(op["table"])[0]
            kinds[op["op"] + ":" + tk] = kinds.get(op["op"] + ":" + tk, 0) + 1
    return {"violations": viol, "schedule": sim.schedule, "events": sim.events, "switches": sim.switches,
            "faults_fired": sim.fault_fired, "harness_errors": sim.harness_errors, "nops": nops, "op_kinds": kinds,
            "models": len(models), "overlap": sorted([[a, b, n] for (a, b), n in sim.overlap.items()]),
            "digest": sha([[list(x) for x in sim.log], results])}


def _run(spec):
    hist = run_in_fork(simulate, (spec,), timeout=300)
    return hist, hist["violations"], {}


def run_case(seed, tier, idx):
    spec = gen_spec(seed, tier)
    hist, viol, _ = _run(spec)
    lit = copy.deepcopy(spec)
    lit["schedule"] = hist["schedule"]
    aliased = sum(n for k, n in hist["op_kinds"].items() if k.endswith("from_model"))
    rec = {"violations": [dict(v, replay={"spec": lit, "event_log_sha256": hist["digest"]}) for v in viol],
           "digest": hist["digest"], "nontrivial": aliased > 0 or bool(hist["faults_fired"]), "events": hist["events"],
           "switches": hist["switches"], "faults_fired": hist["faults_fired"], "nops": hist["nops"],
           "op_kinds": hist["op_kinds"], "models": hist["models"], "ntasks": len(spec["programs"]),
           "overlap": hist["overlap"],
           "sample": {"seed": seed, "points": spec["points"][:2], "program_head": [p[:5] for p in spec["programs"]],
                      "config": spec["config"], "faults": spec["faults"]}}
    if hist["harness_errors"]:
        rec["harness_error"] = "; ".join(hist["harness_errors"])[:2000]
    return rec


def replay_case(rep):
    hist, viol, _ = _run(rep["spec"])
    return {"violations": viol, "digest": hist["digest"]}


def minimise(rep):
    def runner(spec):
        hist = run_in_fork(simulate, (spec,), timeout=120)
        return hist, hist["violations"], {}
    return minimise_spec(rep, runner=runner, max_tests=80)


def summarise(records):
    kinds = {}
    faults = {}
    pairs = set()
    tot = {"events": 0, "switches": 0, "nops": 0, "models": 0}
    two = 0
    for r in records:
        for k, n in r["op_kinds"].items():
            kinds[k] = kinds.get(k, 0) + n
        for f in r["faults_fired"]:
            key = f"interrupt.{f['exc']}"
            faults[key] = faults.get(key, 0) + 1
        for k in tot:
            tot[k] += r[k]
        two += r["ntasks"] > 1
        pairs.update((a, b) for a, b, n in r["overlap"])
    return {
        "rule": "one evaluation = one construction history (3-15 builds per task over shared tables/models and reused "
                "point lists) with inputs, sibling models and the interpolation law checked after every operation; "
                "non-trivial = at least one build took its table from an earlier model (aliasing) or a fault fired; "
                "distinct = distinct event-log digests",
        "operations": tot["nops"], "models_built": tot["models"], "operations_by_kind_and_table_source": kinds,
        "fault_kinds_fired": faults, "histories_with_two_tasks": two,
        "logical_time": {"pre_emption_point_events": tot["events"]}, "context_switches": tot["switches"],
        "overlap_pairs_distinct": len(pairs),
    }
