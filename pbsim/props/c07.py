"""C07 - preferred units only choose how bare numbers and output are read.

Race mode (schedules): client tasks execute explicit-unit operations only while an admin task flips the preferred
units (single slots, whole presets applied slot by slot, defaults) at arbitrary instants, also in the middle of a
client operation.  Every result must be bit-identical to the solo run under default settings (O1).

History mode (histories): one task; flips happen between operations; operations of the float-or-quantity parameter
table (DESIGN appendix A) are performed with BARE numbers - including 0 and negatives - and must be bit-identical to
the solo run of the same operation with the explicit quantity `Unit(x)` in the unit PreferredUnits reported at the
start of that operation."""
from pbsim import gen, simgen
from pbsim.names import DIMS, SLOTS
from pbsim.simprop import minimise_spec, record, replay_spec, run_spec, summarise_sim, sweep_depth1
from pbsim.util import rng_for
from pbsim.world import empty_world

ID = "C07"
LEVEL = "exploration"
STUBS = ("the scheduler, the admin task flipping preferred units; atmospheres in the simulated run are step-seam "
         "subclasses of the real Atmo/Vacuum (the solo oracle uses the plain classes)")
ASSUMPTIONS = [
    "seeded sampling of settings histories, flip instants and parameter values; evidence, not proof",
    "bare-number operations are only executed while no other task can change the settings (history mode): under a "
    "concurrent flip the unit 'in force at the instant of coercion' is racy by definition",
    "the unit in force is what PreferredUnits reports at the start of the operation (whether set()/presets select the "
    "right unit is C18)",
    "fire(trajectory_step=0) is excluded: 0 is that parameter's documented 'no step given' default (C03)",
    "display units of outputs are free; comparison is on base-unit magnitudes, bit for bit",
]
PRESETS = {   # generator-side belief only (used to pick sensible bare numbers); never used by an oracle
    "metric": {"angular": "Degree", "distance": "Meter", "velocity": "MPS", "pressure": "hPa", "temperature": "Celsius",
               "diameter": "Centimeter", "length": "Centimeter", "weight": "Gram", "adjustment": "CmPer100m",
               "drop": "Centimeter", "energy": "Joule", "ogw": "Kilogram", "sight_height": "Centimeter",
               "target_height": "Meter", "twist": "Centimeter"},
    "imperial": {"angular": "Degree", "distance": "Foot", "velocity": "FPS", "pressure": "InHg",
                 "temperature": "Fahrenheit", "diameter": "Inch", "length": "Inch", "weight": "Grain",
                 "adjustment": "Mil", "drop": "Inch", "energy": "FootPound", "ogw": "Pound", "sight_height": "Inch",
                 "target_height": "Inch", "twist": "Inch"},
    "mixed": {"angular": "Degree", "distance": "Meter", "velocity": "MPS", "pressure": "hPa", "temperature": "Celsius",
              "diameter": "Inch", "length": "Inch", "weight": "Grain", "adjustment": "Mil", "drop": "Centimeter",
              "energy": "FootPound", "ogw": "Kilogram", "sight_height": "Inch", "target_height": "Meter",
              "twist": "Inch"},
}


def plan(tier):
    return {"runs": 640} if tier == "quick" else {"runs": 40000, "budget": 1200.0}


# ---------------------------------------------------------------------------------------------------------------
# race mode

def gen_race(seed, tier):
    rng = rng_for(seed, "program")
    ntasks = gen.pick(rng, [1, 1, 2] if tier == "quick" else [1, 2, 2, 3])
    w = empty_world()
    simgen.gen_pool(rng, w)
    programs, roles = [], {}
    for t in range(ntasks):
        w["weapons"].append(simgen.gen_weapon(rng))
        wid = len(w["weapons"]) - 1
        shots = []
        for _ in range(rng.randint(1, 2)):
            w["shots"].append(simgen.gen_shot(rng, w, wid))
            shots.append(len(w["shots"]) - 1)
        w["calcs"].append({"config": simgen.gen_calc_config(rng, raising=gen.pick(rng, [None, None, None, "velocity"]),
                                                          allow_default_step=False)})
        prog = simgen.gen_client_program(rng, w, t, [len(w["calcs"]) - 1], shots, rng.randint(3, 7), {})
        # sight adjustment (second focal plane scales the click size) is part of the explicit-unit surface
        for _ in range(rng.randint(0, 2)):
            prog.insert(rng.randint(1, len(prog)), gen_sight_op(rng, None))
        # insertion shifts indices: re-point danger ops at their fire
        _repoint(prog)
        simgen.add_clones(prog, rng, 0.15)
        programs.append(prog)
        roles[str(t)] = "client"
    programs.append(simgen.gen_units_flip_program(rng, rng.randint(3, 10)))
    roles[str(len(programs) - 1)] = "admin"
    cfg = simgen.gen_engine_config(rng, tier, len(programs))
    simgen.tame_for_line_mode(programs, cfg)
    if cfg["mode"] == "none":
        cfg["mode"] = "cold"
    frng = rng_for(seed, "faults")
    faults = simgen.gen_interrupts(frng, programs, roles, cfg["mode"], 2) if frng.random() < 0.3 else []
    return {"seed": seed, "mode7": "race", "world": w, "programs": programs, "roles": roles, "config": cfg, "faults": faults}


def _repoint(prog):
    last_extra = None
    last_kept = None
    for i, op in enumerate(prog):
        if op.get("op") == "reread":
            op["src"] = last_kept if last_kept is not None else 0
        if op.get("op") in ("fire", "zero", "elev", "danger", "fire_tmp"):
            last_kept = i
        if op.get("op") == "fire" and op.get("extra"):
            last_extra = i
        if op.get("op") in ("danger", "at_dist"):
            op["fire"] = last_extra if last_extra is not None else 0
    # a danger op whose fire is not an extra-data fire would raise AttributeError deterministically on both sides: fine


def gen_sight_op(rng, slots):
    fp = gen.pick(rng, ["SFP", "SFP", "FFP", "LWIR"])
    cu = gen.pick(rng, ["Mil", "MOA", "MRad", "InchesPer100Yd", "CmPer100m", "Degree", "Thousandth"])
    click = {"Mil": 0.1, "MOA": 0.25, "MRad": 0.1, "InchesPer100Yd": 0.25, "CmPer100m": 1.0, "Degree": 0.01,
             "Thousandth": 0.1}[cu]
    op = {"op": "sight_adj", "fp": fp, "scale": [100.0, gen.pick(rng, ["Meter", "Yard"])], "h": [click, cu],
          "v": [click * gen.pick(rng, [1, 2]), cu],
          "dist": gen.gen_distance_ft(rng, round(rng.uniform(150, 2400), 1), ("Yard", "Meter", "Foot")),
          "drop": gen.gen_angle_deg(rng, round(rng.uniform(-1.5, 1.5), 4)),
          "wind": gen.gen_angle_deg(rng, round(rng.uniform(-0.5, 0.5), 4)), "mag": gen.pick(rng, [1, 4, 10, 12.5])}
    return op


# ---------------------------------------------------------------------------------------------------------------
# history mode

class Belief:
    """what the generator believes the settings are (only to pick sensible bare numbers)"""

    def __init__(self):
        self.slots = {s: d for s, (_, d) in SLOTS.items()}

    def apply(self, op):
        k = op["op"]
        if k == "set_units":
            for s, (how, u) in op["slots"].items():
                if how == "enum":
                    self.slots[s] = u
                else:
                    from pbsim.props.c18 import resolve
                    self.slots[s] = resolve(u) or self.slots[s]
        elif k == "assign_unit":
            self.slots[op["slot"]] = op["unit"]
        elif k == "defaults":
            self.slots = {s: d for s, (_, d) in SLOTS.items()}
        elif k == "preset":
            self.slots.update(PRESETS[op["which"]])
        elif k == "basic_config":
            self.slots.update(op.get("units") or {})


def bare(rng, belief, slot, ref_value, zero_p=0.0, neg_ok=False, state=None):
    """a bare number for `slot`: ref_value (reference unit) expressed in the believed unit; sometimes exactly 0"""
    if zero_p and (state is None or not state.get("zero_used")) and rng.random() < zero_p:
        if state is not None:
            state["zero_used"] = True
        return {"bare": gen.pick(rng, [0, 0.0]), "slot": slot}
    x = gen.sig4(gen.from_ref(belief.slots[slot], ref_value))
    if neg_ok and rng.random() < 0.2:
        x = -abs(x)
    if rng.random() < 0.15 and x == int(x):
        x = int(x)
    return {"bare": x, "slot": slot}


def maybe(rng, belief, slot, ref_value, explicit, p=0.6, zero_p=0.0, neg_ok=False, state=None):
    if rng.random() < p:
        return bare(rng, belief, slot, ref_value, zero_p, neg_ok, state)
    return explicit


def gen_param_op(rng, b, w, ctx):
    """one operation of the parameter table with bare numbers; at most one bare ZERO per operation so that a
    violation can name the parameter"""
    st = {}
    Z = 0.3
    kind = gen.pick(rng, ["atmo", "atmo", "icao", "vacuum", "wind", "weapon", "ammo", "dm", "mbc", "shot", "sight",
                          "powder", "vel_for_temp", "fire", "zero", "elev", "danger", "gstep"])
    mw = empty_world()

    def mk(what):
        return {"op": "mk", "what": what, "world": mw}

    if kind == "atmo":
        mw["atmos"].append({"kind": "explicit",
                            "altitude": maybe(rng, b, "distance", rng.uniform(-500, 9000), [500.0, "Foot"], zero_p=Z, state=st),
                            "pressure": maybe(rng, b, "pressure", rng.uniform(22, 31), [29.5, "InHg"], zero_p=Z / 2, state=st),
                            "temperature": maybe(rng, b, "temperature", rng.uniform(-25, 40), [10.0, "Celsius"], zero_p=Z, state=st),
                            "humidity": gen.pick(rng, [0.0, 0.5, 40]),
                            "powder_t": gen.pick(rng, [None, maybe(rng, b, "temperature", rng.uniform(-25, 40), [20.0, "Celsius"], zero_p=Z, state=st)])})
        return mk("atmo")
    if kind == "icao":
        mw["atmos"].append({"kind": "icao", "altitude": bare(rng, b, "distance", rng.uniform(-500, 9000), Z, state=st)})
        return mk("atmo")
    if kind == "vacuum":
        mw["atmos"].append({"kind": "vacuum", "altitude": maybe(rng, b, "distance", rng.uniform(0, 5000), [100.0, "Meter"], zero_p=Z, state=st),
                            "temperature": maybe(rng, b, "temperature", rng.uniform(-25, 40), [10.0, "Celsius"], zero_p=Z, state=st)})
        return mk("atmo")
    if kind == "wind":
        mw["winds"].append({"velocity": maybe(rng, b, "velocity", rng.uniform(0, 40), [10.0, "FPS"], zero_p=Z, state=st),
                            "direction": maybe(rng, b, "angular", rng.uniform(0, 350), [90.0, "Degree"], zero_p=Z, neg_ok=True, state=st),
                            "until": gen.pick(rng, [None, maybe(rng, b, "distance", rng.uniform(30, 3000), [300.0, "Yard"], zero_p=Z, state=st)])})
        return mk("wind")
    if kind == "weapon":
        mw["weapons"].append({"sight_height": maybe(rng, b, "sight_height", rng.uniform(0.05, 0.3), [2.0, "Inch"], zero_p=Z, neg_ok=True, state=st),
                              "twist": maybe(rng, b, "twist", rng.uniform(0.5, 1.2), [10.0, "Inch"], zero_p=Z, neg_ok=True, state=st),
                              "zero": maybe(rng, b, "angular", rng.uniform(0, 0.5), [0.1, "Degree"], zero_p=Z, neg_ok=True, state=st)})
        return mk("weapon")
    if kind in ("ammo", "dm", "mbc"):
        mw["tables"].append({"kind": "shipped", "name": "TableG7"})
        dm = {"table": 0, "weight": maybe(rng, b, "weight", rng.uniform(50, 400), [168.0, "Grain"], zero_p=Z, state=st),
              "diameter": maybe(rng, b, "diameter", rng.uniform(0.018, 0.042), [0.308, "Inch"], zero_p=Z, state=st),
              "length": maybe(rng, b, "length", rng.uniform(0.05, 0.17), [1.2, "Inch"], zero_p=Z, state=st)}
        if kind == "mbc":
            v1 = rng.uniform(1500, 3000)
            dm["mbc"] = [[0.25, "V", bare(rng, b, "velocity", v1, Z / 2, state=st)],
                         [0.22, "V", bare(rng, b, "velocity", v1 - rng.uniform(300, 900), 0, state=st)],
                         [0.2, "Mach", 0.9]]
        else:
            dm["bc"] = 0.3
        mw["dms"].append(dm)
        if kind == "ammo":
            mw["ammos"].append({"dm": 0, "mv": maybe(rng, b, "velocity", rng.uniform(800, 3200), [2700.0, "FPS"], zero_p=Z, state=st),
                                "powder_temp": gen.pick(rng, [None, maybe(rng, b, "temperature", rng.uniform(-20, 35), [15.0, "Celsius"], zero_p=Z, state=st)]),
                                "use_ps": rng.random() < 0.5, "temp_modifier": 0.02})
            return mk("ammo")
        return mk("dm")
    if kind == "shot":
        mw["tables"].append({"kind": "shipped", "name": "TableG1"})
        mw["dms"].append({"table": 0, "bc": 0.4})
        mw["ammos"].append({"dm": 0, "mv": [2600.0, "FPS"]})
        mw["weapons"].append({"sight_height": [2.0, "Inch"], "twist": [10.0, "Inch"], "zero": [0.1, "Degree"]})
        mw["shots"].append({"weapon": 0, "ammo": 0, "atmo": None, "winds": None,
                            "look": maybe(rng, b, "angular", rng.uniform(0, 20), [2.0, "Degree"], zero_p=Z, neg_ok=True, state=st),
                            "relative": maybe(rng, b, "angular", rng.uniform(0, 1), [0.2, "Degree"], zero_p=Z, neg_ok=True, state=st),
                            "cant": maybe(rng, b, "angular", rng.uniform(0, 30), [5.0, "Degree"], zero_p=Z, neg_ok=True, state=st)})
        return mk("shot")
    if kind == "sight":
        op = gen_sight_op(rng, None)
        if rng.random() < 0.6:
            op["dist"] = bare(rng, b, "distance", rng.uniform(150, 2400), 0, state=st)
        if rng.random() < 0.5:
            op["scale"] = bare(rng, b, "distance", 328.0, Z / 2 if op["fp"] != "SFP" else Z / 3, state=st)
        if rng.random() < 0.5:
            op["h"] = bare(rng, b, "adjustment", 0.005, 0, state=st)
            op["v"] = bare(rng, b, "adjustment", 0.005, 0, state=st)
        return op
    if kind == "powder":
        return {"op": "powder", "ammo": ctx["own_ammo"],
                "v": maybe(rng, b, "velocity", 2650.0 * (1 + rng.uniform(-0.04, 0.04)), [2600.0, "FPS"], zero_p=Z, state=st),
                "t": maybe(rng, b, "temperature", 15.0 + gen.pick(rng, [-1, 1]) * rng.uniform(10, 35), [0.0, "Celsius"], zero_p=Z, state=st)}
    if kind == "vel_for_temp":
        return {"op": "vel_for_temp", "ammo": ctx["own_ammo"],
                "t": maybe(rng, b, "temperature", rng.uniform(-20, 40), [0.0, "Celsius"], p=0.9, zero_p=Z, state=st)}
    if kind == "fire":
        rft = rng.uniform(100, 900)
        op = {"op": "fire", "calc": ctx["calc"], "shot": gen.pick(rng, ctx["shots"]),
              "range": maybe(rng, b, "distance", rft, [round(rft / 3, 1), "Yard"], p=0.8, state=st),
              "extra": rng.random() < 0.3}
        if rng.random() < 0.8:
            op["step"] = maybe(rng, b, "distance", rft / gen.pick(rng, [2, 4, 5, 10]), [round(rft / 12, 2), "Yard"], p=0.8, state=st)
        return op
    if kind in ("zero", "elev"):
        return {"op": kind, "calc": ctx["calc"], "shot": gen.pick(rng, ctx["shots"]),
                "dist": bare(rng, b, "distance", rng.uniform(75, 900), 0, state=st)}
    if kind == "danger":
        return {"op": "danger_pair"}
    if kind == "gstep":
        if rng.random() < 0.3:
            # the same parameter through basicConfig (0 excluded: there it means "not given" and loads the config file)
            return {"op": "basic_config", "step": maybe(rng, b, "distance", gen.pick(rng, [1.0, 2.0, 4.0, 0.5]), [1.0, "Foot"], p=0.8, neg_ok=True, state=st)}
        return {"op": "gstep", "value": maybe(rng, b, "distance", gen.pick(rng, [1.0, 2.0, 4.0, 0.5]), [1.0, "Foot"], p=0.8, zero_p=Z / 2, neg_ok=True, state=st)}
    raise ValueError(kind)


def gen_history(seed, tier, reapply=False):
    """reapply=True: the settings are put in force once, at the start (a preset or a several-slot set call); from then on
    an admin task keeps RE-APPLYING EXACTLY THAT CALL while the client passes bare numbers.  Re-applying the settings in
    force changes nothing, so every bare number still means the unit in force - a setter or loader that passes through
    other values on the way (reset-then-set) shows as a bare number read in a unit that was never selected."""
    rng = rng_for(seed, "program")
    w = empty_world()
    simgen.gen_pool(rng, w, n_tables=(1, 2), n_dms=(1, 3), n_ammos=(1, 2), n_atmos=(1, 2), n_winds=(0, 3))
    w["weapons"].append(simgen.gen_weapon(rng))
    shots = []
    for _ in range(2):
        w["shots"].append(simgen.gen_shot(rng, w, 0, steep_p=0.05))
        shots.append(len(w["shots"]) - 1)
    w["ammos"].append({"dm": 0, "mv": [2650.0, "FPS"], "powder_temp": [15.0, "Celsius"], "use_ps": True,
                       "temp_modifier": 0.02})
    own_ammo = len(w["ammos"]) - 1
    ncalc = 0
    b = Belief()
    prog = []

    def new_calc():
        nonlocal ncalc
        w["calcs"].append({"config": simgen.gen_calc_config(rng, allow_default_step=False)
                           if rng.random() < 0.8 else {"cMinimumVelocity": 100.0}})
        prog.append({"op": "new_calc", "calc": ncalc})
        ncalc += 1
        return ncalc - 1

    ctx = {"calc": new_calc(), "shots": shots, "own_ammo": own_ammo}
    n = rng.randint(6, 14)
    first_flip = None
    if reapply:
        if rng.random() < 0.6:
            first_flip = {"op": "preset", "which": gen.pick(rng, ["metric", "mixed", "imperial", "metric"])}
        else:
            first_flip = {"op": "set_units", "slots": {sl: ["enum", simgen.pick_unit(rng, SLOTS[sl][0])]
                                                       for sl in sorted({simgen.pick_slot(rng) for _ in range(6)})}}
        b.apply(first_flip)
        prog.append(first_flip)
    while len(prog) < n:
        if not reapply and rng.random() < 0.3:
            adm = simgen.gen_units_flip_program(rng, 1)[0]
            b.apply(adm)
            prog.append(adm)
            continue
        if rng.random() < 0.12:
            prog.append(simgen.gen_retag(rng, w))
            continue
        if rng.random() < 0.1:
            fam = {"kind": "derived", "name": "TableG7", "stride": 2, "offset": 0}
            prog.append(simgen.gen_fire_tmp(rng, ctx["calc"], fam))
            continue
        op = gen_param_op(rng, b, w, ctx)
        if op["op"] == "danger_pair":
            rft = rng.uniform(300, 900)
            prog.append({"op": "fire", "calc": ctx["calc"], "shot": shots[0], "range": [round(rft, 1), "Foot"],
                         "step": [round(rft / 10, 2), "Foot"], "extra": True})
            prog.append({"op": "danger", "fire": len(prog) - 1,
                         "at": (bare(rng, b, "distance", rft * rng.uniform(0.3, 0.9), 0) if rng.random() < 0.5 else
                                # boundary values of "first row with distance >= d" (explicit, so that rounding of the
                                # bare number to 5 digits does not move it off the boundary)
                                [round(rng.randint(1, 9) * rft / 10 + gen.pick(rng, [0.0, -0.5, 0.5, -1.5, 1.5, -3.0, 3.0, 4.5]), 4), "Foot"]),
                         "height": bare(rng, b, "distance", rng.uniform(0.5, 6), 0.2),
                         "look": gen.pick(rng, [None, bare(rng, b, "angular", rng.uniform(0, 10), 0.3, neg_ok=True)])})
            prog.append({"op": "at_dist", "fire": len(prog) - 2,
                         "d": [round(rng.randint(1, 9) * rft / 10 + gen.pick(rng, [0.0, -0.5, 0.5, 1.5, 3.0, 4.5]), 4), "Foot"]})
            continue
        if reapply and op["op"] in ("gstep", "basic_config"):
            continue
        if op["op"] in ("gstep", "basic_config"):
            prog.append(op)
            # a calculator created now takes the new global step; keep it usable (>= 0.5 ft in every unit: the bare
            # number was chosen for the believed unit)
            if rng.random() < 0.7:
                w["calcs"].append({"config": {"cMinimumVelocity": 60.0}})
                prog.append({"op": "new_calc", "calc": ncalc})
                prog.append({"op": "fire", "calc": ncalc, "shot": shots[0], "range": [150.0, "Yard"], "step": [50.0, "Yard"]})
                ncalc += 1
                prog.append({"op": "reset_globals"})
            continue
        prog.append(op)
    simgen.add_clones(prog, rng, 0.3)
    if reapply:
        import copy as _copy
        admin = [_copy.deepcopy(first_flip) for _ in range(rng.randint(3, 8))]
        cfg = {"mode": gen.pick(rng, ["cold", "cold", "line"]), "policy": gen.pick(rng, ["uniform", "pct", "boundary"]),
               "mean_run": gen.pick(rng, [1, 5, 50]), "opcode": False, "pct_depth": rng.randint(1, 3)}
        simgen.tame_for_line_mode([prog, admin], cfg)
        return {"seed": seed, "mode7": "history", "reapply": True, "world": w, "programs": [prog, admin],
                "roles": {"0": "client", "1": "admin"}, "config": cfg, "faults": []}
    cfg = {"mode": gen.pick(rng, ["none", "none", "cold"]), "policy": "serial", "mean_run": 1000, "opcode": False}
    return {"seed": seed, "mode7": "history", "world": w, "programs": [prog], "roles": {"0": "client"}, "config": cfg,
            "faults": []}


def gen_spec(seed, tier):
    if rng_for(seed, "reapply").random() < 0.12:
        return gen_history(seed, tier, reapply=True)
    rng = rng_for(seed, "mode")
    return gen_race(seed, tier) if rng.random() < 0.4 else gen_history(seed, tier)


def refine(v, spec, hist):
    """name the bare-zero parameter (if any) of the violating operation in the signature"""
    try:
        op = spec["programs"][v["task"]][v["op_index"]]
    except Exception:
        return v
    zeros = sorted(_bare_zero_params(op))
    sig = dict(v["sig"])
    sig["mode"] = spec.get("mode7")
    if op.get("op") == "mk":
        sig["what"] = op["what"]
    if zeros:
        sig["bare_zero"] = zeros[0]
    elif spec.get("mode7") == "history":
        sig["bare_zero"] = None
    if op.get("op") == "sight_adj":
        sig["fp"] = op.get("fp")
    v["sig"] = sig
    return v


def _bare_zero_params(x, name=""):
    out = []
    if isinstance(x, dict):
        if "bare" in x and "slot" in x:
            if x["bare"] == 0:
                out.append(name)
            return out
        for k, v in x.items():
            if k == "world":
                for kind, lst in v.items():
                    if isinstance(lst, list):
                        for e in lst:
                            out += _bare_zero_params(e, "")
            else:
                out += _bare_zero_params(v, k)
    elif isinstance(x, list):
        for e in x:
            out += _bare_zero_params(e, name)
    return out


def gen_admin_sweep(seed, tier):
    """one client with a short, cheap program of explicit-unit operations + the admin task: the WHOLE client program is
    run at (up to 150 of) the pre-emption points of the admin's settings changes, so every intermediate state a setter
    or preset loader passes through is observed by complete computations"""
    rng = rng_for(seed, "program")
    w = empty_world()
    simgen.gen_pool(rng, w, n_tables=(1, 1), n_dms=(1, 2), n_ammos=(1, 2), n_atmos=(1, 2), n_winds=(1, 2))
    w["weapons"].append(simgen.gen_weapon(rng))
    w["shots"].append(simgen.gen_shot(rng, w, 0, steep_p=0.0))
    w["calcs"].append({"config": {"max_calc_step_size_feet": 8.0}})
    prog = [{"op": "new_calc", "calc": 0}]
    for _ in range(3):
        prog.append(simgen.gen_mk_op(rng))
    prog.append({"op": "fire", "calc": 0, "shot": 0, "range": [150.0, "Yard"], "step": [50.0, "Yard"], "extra": True})
    prog.append({"op": "danger", "fire": len(prog) - 1, "at": [100.0, "Yard"], "height": [0.5, "Meter"], "look": None})
    prog.append({"op": "zero", "calc": 0, "shot": 0, "dist": [100.0, "Yard"]})
    prog.append(gen_sight_op(rng, None))
    admin = simgen.gen_units_flip_program(rng, rng.randint(1, 3))
    # always: one settings call that mixes a valid unit, a valid NAME and an UNKNOWN name on slots the client reads -
    # the branches of the setter with the most intermediate steps
    hot = rng.sample(["distance", "angular", "adjustment", "temperature", "velocity", "sight_height", "pressure"], 3)
    from pbsim.names import UNIT_ALIASES
    u = simgen.pick_unit(rng, SLOTS[hot[1]][0])
    admin.insert(rng.randrange(len(admin) + 1), {"op": "set_units", "slots": dict(sorted({
        hot[0]: ["name", gen.pick(rng, ["xyz", "meterz", ""])],
        hot[1]: ["name", gen.pick(rng, [u] + UNIT_ALIASES[u]).lower()],
        hot[2]: ["enum", simgen.pick_unit(rng, SLOTS[hot[2]][0])]}.items()))})
    return {"seed": seed, "mode7": "race", "world": w, "programs": [prog, admin], "roles": {"0": "client", "1": "admin"},
            "config": {"mode": "line", "policy": "serial", "mean_run": 1000, "opcode": False}, "faults": []}


def run_case(seed, tier, idx):
    if rng_for(seed, "adminsweep").random() < (0.03 if tier == "quick" else 0.06):
        spec = gen_admin_sweep(seed, tier)
        rec = sweep_depth1(spec, None, 150, post=lambda s, h, v: [refine(x, s, h) for x in v], a_task=1,
                           only_inside=("set", "defaults", "_load_config", "_basic_config", "<boundary>", "<op start>"))
        rec["mode7"] = "race"
        rec["bare_args"] = rec["bare_zero_args"] = 0
        rec["flips"] = len(spec["programs"][1])
        rec["nontrivial"] = True
        return rec
    spec = gen_spec(seed, tier)
    rec = None
    if spec["mode7"] == "race" and len(spec["programs"]) == 2:
        # one client + the admin: place the WHOLE flip sequence at each of n pre-emption points of the client
        r = rng_for(seed, "sweep").random()
        p_d1, n = (0.35, 24) if tier == "thorough" else (0.08, 8)
        if r < p_d1:
            rec = sweep_depth1(spec, None, n, post=lambda s, h, v: [refine(x, s, h) for x in v])
    if rec is None:
        hist, viol, stats = run_spec(spec)
        viol = [refine(v, spec, hist) for v in viol]
        rec = record(spec, hist, viol, stats)
    rec["mode7"] = spec["mode7"]
    rec["reapply"] = bool(spec.get("reapply"))
    rec["bare_args"] = sum(_count_bare(op) for p in spec["programs"] for op in p)
    rec["bare_zero_args"] = sum(len(_bare_zero_params(op)) for p in spec["programs"] for op in p)
    rec["flips"] = sum(1 for p in spec["programs"] for op in p if op.get("op") in
                       ("set_units", "assign_unit", "defaults", "preset", "basic_config"))
    rec["nontrivial"] = rec["flips"] > 0
    return rec


def _count_bare(x):
    if isinstance(x, dict):
        if "bare" in x and "slot" in x:
            return 1
        return sum(_count_bare(v) for v in x.values())
    if isinstance(x, list):
        return sum(_count_bare(v) for v in x)
    return 0


def replay_case(rep):
    spec = rep["spec"]
    hist, viol, stats = run_spec(spec)
    return {"violations": [refine(v, spec, hist) for v in viol], "digest": hist["digest"]}


def minimise(rep):
    def runner(spec):
        hist, viol, stats = run_spec(spec, timeout=300)
        return hist, [refine(v, spec, hist) for v in viol], stats
    return minimise_spec(rep, runner=runner)


def summarise(records):
    cov = summarise_sim(records, "C07: non-trivial additionally requires at least one settings flip in the run.")
    cov["runs_race_mode"] = sum(1 for r in records if r["mode7"] == "race")
    cov["runs_history_mode"] = sum(1 for r in records if r["mode7"] == "history")
    cov["runs_with_settings_reapplied_concurrently_with_bare_numbers"] = sum(1 for r in records if r.get("reapply"))
    cov["bare_number_arguments"] = sum(r["bare_args"] for r in records)
    cov["bare_zero_arguments"] = sum(r["bare_zero_args"] for r in records)
    cov["settings_flips"] = sum(r["flips"] for r in records)
    cov["fault_kinds_fired"] = {"units_flip": cov["settings_flips"]}
    return cov
