"""C18 - configuration is honoured, local to its calculator, and parsed faithfully.

Four sub-engines, one check (DESIGN section 6):
  names  the finite name table {41 enumeration names + every documented alias} x {as documented, lower, upper,
         title} x {no blanks, surrounding blanks} x numeric prefixes, through PreferredUnits.set, _parse_unit and
         _parse_value, under several settings (the parser consults the settings) - ENUMERATED COMPLETELY in every run,
         against a pinned copy of the table; unknown names must raise or leave the slot alone;
  local  history machine: set/reset of the global step (any unit, bare, <= 0), basicConfig, calculator creation with
         subsets of the 8 settings, fire/zero; every calculator must behave as a fresh calculator created with its
         fully explicit configuration (O1), a small model tracks the global step, and a step trace (tiny time step)
         bounds the distance between consecutive integration points by the configured maximum;
  race   calculators are created in one task while an admin task flips the global step (opcode pre-emption inside
         create_interface_config): the step is a value the global held, every other field its default / given value;
  file   configuration FILES behind an in-memory file-system seam with ENOENT/EACCES/EIO/EISDIR on open, EIO on read,
         torn (short) reads at enumerated offsets, a flipped byte, TOCTOU delete/replace, getcwd failure; the oracle
         looks at the bytes actually delivered."""
import copy
import math
import re

from pbsim import gen, lib, simgen
from pbsim.forkrun import run_in_fork
from pbsim.fsfake import FakeFS
from pbsim.names import (ALL_UNITS, CONFIG_DEFAULTS, DIMS, SLOTS, UNIT_ALIASES, UNIT_DIM, UNKNOWN_NAMES, all_names)
from pbsim.oracle import explicit_calc_cfg
from pbsim.sched import LiteralDecider, PrngDecider, Sim
from pbsim.simprop import minimise_spec, record, run_spec, summarise_sim
from pbsim.util import fhex, rng_for, sha
from pbsim.world import empty_world

ID = "C18"
LEVEL = "exploration"
STUBS = ("in-memory file system behind py_ballisticcalc.os / py_ballisticcalc.open for configuration loading (path "
         "arithmetic is real posixpath); scheduler and admin task; stdlib tomllib is the TOML oracle; the name table "
         "is a pinned copy under /verif")
ASSUMPTIONS = [
    "the name clause is a finite table and is enumerated completely in every run (exhaustive for that clause); "
    "settings histories, file scenarios and fault positions are sampled (truncation offsets: a stride in the quick "
    "tier, every offset in the thorough tier)",
    "the pinned name table is the documented alias table with its one malformed entry ('in/100yard, inper100yd') "
    "read as the two aliases it spells",
    "slot names (e.g. 'distance') given where a unit name is expected are a documented feature of _parse_value's "
    "`preferred` argument and are not treated as unknown names",
    "for an incomplete or faulty file the oracle is deliberately no stronger than the property: raise, or leave every "
    "slot unchanged or set to the unit a complete assignment in the delivered bytes names for it",
    "step bound measured between consecutive integration points of windless, un-twisted shots (no spin drift)",
]
SLOT_BY_DIM = {}
for _s, (_d, _u) in SLOTS.items():
    SLOT_BY_DIM.setdefault(_d, _s)
LOWER_TABLE = {n.lower(): u for n, u in all_names()}
SLOT_NAMES = set(SLOTS)


def _r(x):
    """safe text of whatever a slot holds (a stored class or bound method may have a recursive / huge repr)"""
    try:
        if isinstance(x, lib.pb.Unit):
            return "Unit." + x.name
    except Exception:  # noqa
        pass
    return f"<{type(x).__name__} object>"


def resolve(name):
    """pinned resolution: case-insensitive, surrounding blanks ignored"""
    return LOWER_TABLE.get(name.strip().lower())


def plan(tier):
    return {"runs": 1200} if tier == "quick" else {"runs": 80000, "budget": 1200.0}


def mode_of(seed, idx):
    if idx == 0:
        return "names"
    r = rng_for(seed, "mode").random()
    return "local" if r < 0.4 else "race" if r < 0.55 else "file"


# ===============================================================================================================
# names: exhaustive

def case_variants(name):
    out = [("as_documented", name), ("lower", name.lower()), ("upper", name.upper()), ("title", name.title())]
    seen, res = set(), []
    for k, v in out:
        if v not in seen:
            seen.add(v)
            res.append((k, v))
    return res


PREFIXES = ["10", "10.2", ".2", "0.", "-3"]
SETTINGS = ["defaults", "metric", "odd"]


def _apply_settings(which):
    pb = lib.pb
    pb.PreferredUnits.defaults()
    if which == "metric":
        pb.loadMetricUnits()
    elif which == "odd":
        pb.PreferredUnits.set(distance=pb.Unit.Kilometer, velocity=pb.Unit.KT, angular=pb.Unit.Thousandth,
                              temperature=pb.Unit.Rankin, pressure=pb.Unit.PSI, weight=pb.Unit.Newton,
                              energy=pb.Unit.Joule)


def _names_child(only=None):
    pb = lib.pb
    from py_ballisticcalc.unit import _parse_unit, _parse_value
    lib.reset_globals()
    viol = {}
    n_checks = 0
    cases = []

    def bad(inv, via, unit, name, detail):
        key = (inv, via, unit)
        if key not in viol:
            viol[key] = {"sig": {"invariant": inv, "via": via, "unit": unit},
                         "detail": f"name {name!r}: {detail}", "replay": {"names_only": [name, unit, via]}}

    table = all_names()
    for name, uname in table:
        if only is not None and (name != only[0] or uname != only[1]):
            continue
        U = getattr(pb.Unit, uname)
        slot = SLOT_BY_DIM[UNIT_DIM[uname]]
        for ck, variant in case_variants(name):
            for blanks in (False, True):
                text = f"  {variant} " if blanks else variant
                for st in SETTINGS:
                    # ---- PreferredUnits.set(slot=<name>)
                    _apply_settings(st)
                    other = next(u for u in DIMS[UNIT_DIM[uname]] if u != uname) if len(DIMS[UNIT_DIM[uname]]) > 1 else uname
                    setattr(pb.PreferredUnits, slot, getattr(pb.Unit, other))
                    n_checks += 1
                    try:
                        pb.PreferredUnits.set(**{slot: text})
                        got = getattr(pb.PreferredUnits, slot)
                        if got is not U or not isinstance(got, pb.Unit):
                            bad("names.unresolved", "set", uname, text, f"PreferredUnits.set({slot}={text!r}) left the slot "
                                                                        f"at {_r(got)}, expected {uname} (settings {st})")
                    except Exception as e:  # noqa
                        bad("names.unresolved", "set", uname, text, f"PreferredUnits.set raised {type(e).__name__}: {e}")
                    # ---- _parse_unit
                    n_checks += 1
                    try:
                        got = _parse_unit(text)
                        if got is not U:
                            bad("names.unresolved", "parse_unit", uname, text, f"_parse_unit -> {_r(got)}, expected {uname} (settings {st})")
                    except Exception as e:  # noqa
                        bad("names.unresolved", "parse_unit", uname, text, f"_parse_unit raised {type(e).__name__}: {e}")
                    if st != "defaults" and ck not in ("as_documented", "upper"):
                        continue
                    # ---- value strings with a numeric prefix, and `preferred` given as a name
                    for pre in PREFIXES:
                        s = f"{pre} {variant} " if blanks else pre + variant
                        n_checks += 2
                        want = U(float(pre)).raw_value
                        try:
                            q = _parse_value(s, None)
                            if q is None or q.units is not U or fhex(float(q.raw_value)) != fhex(float(want)):
                                bad("names.unresolved", "parse_value", uname, s,
                                    f"_parse_value({s!r}) -> {q!r} (units {getattr(q, 'units', None)!r}), expected {pre} {uname}")
                        except Exception as e:  # noqa
                            bad("names.unresolved", "parse_value", uname, s, f"_parse_value({s!r}) raised {type(e).__name__}: {e}")
                        try:
                            q = _parse_value(pre, text)
                            if q is None or q.units is not U or fhex(float(q.raw_value)) != fhex(float(want)):
                                bad("names.unresolved", "preferred", uname, text,
                                    f"_parse_value({pre!r}, preferred={text!r}) -> {q!r}, expected {pre} {uname}")
                        except Exception as e:  # noqa
                            bad("names.unresolved", "preferred", uname, text,
                                f"_parse_value({pre!r}, preferred={text!r}) raised {type(e).__name__}: {e}")
            cases.append([name, uname, ck])
    # ---- unknown names: raise, or leave the setting unchanged; never select something
    for name in UNKNOWN_NAMES:
        if only is not None and (name != only[0] or only[1] != "<unknown>"):
            continue
        if name.strip().lower() in LOWER_TABLE or name.strip().lower() in SLOT_NAMES:
            continue
        for st in SETTINGS:
            for slot in ("distance", "angular", "temperature", "energy"):
                _apply_settings(st)
                before = getattr(pb.PreferredUnits, slot)
                n_checks += 1
                try:
                    pb.PreferredUnits.set(**{slot: name})
                except Exception:  # noqa: raising is allowed
                    pass
                after = getattr(pb.PreferredUnits, slot)
                if after is not before:
                    bad("names.unknown_selects_something", "set", "<unknown>", name,
                        f"PreferredUnits.set({slot}={name!r}) changed the slot from {_r(before)} to {_r(after)}")
                    setattr(pb.PreferredUnits, slot, before)
            n_checks += 2
            try:
                got = _parse_value("12" + name, None) if name else None
                if got is not None and name not in ("0", "1.5", ""):
                    bad("names.unknown_selects_something", "parse_value", "<unknown>", name,
                        f"_parse_value('12{name}') returned {got!r}")
            except Exception:  # noqa
                pass
            try:
                got = _parse_value("12", name)
                if got is not None:
                    bad("names.unknown_selects_something", "preferred", "<unknown>", name,
                        f"_parse_value('12', preferred={name!r}) returned {got!r}")
            except Exception:  # noqa
                pass
    lib.reset_globals()
    return {"violations": list(viol.values()), "n_checks": n_checks, "n_names": len(table), "n_cases": len(cases),
            "digest": sha([n_checks, sorted(map(str, viol))]), "exhaustive": only is None}


# ===============================================================================================================
# local: history machine (single task) on top of the generic simulation + solo oracle

def gen_local(seed, tier):
    rng = rng_for(seed, "program")
    w = empty_world()
    simgen.gen_pool(rng, w, n_tables=(1, 2), n_dms=(1, 2), n_ammos=(1, 2), n_atmos=(1, 2), n_winds=(0, 2))
    w["weapons"].append(simgen.gen_weapon(rng))
    shots = []
    for _ in range(2):
        w["shots"].append(simgen.gen_shot(rng, w, 0, steep_p=0.05))
        shots.append(len(w["shots"]) - 1)
    # a windless, un-twisted, un-canted shot for the step trace
    w["weapons"].append({"sight_height": [2.0, "Inch"], "twist": [0, "Inch"], "zero": [0.08, "Degree"]})
    w["shots"].append({"weapon": 1, "ammo": 0, "atmo": 0, "winds": None, "look": gen.gen_angle_deg(rng, gen.pick(rng, [0.0, 3.0, -5.0, 20.0])),
                       "relative": [0.0, "Degree"], "cant": [0.0, "Degree"]})
    trace_shot = len(w["shots"]) - 1
    # the same in a vacuum: vertical acceleration between integration points must be the calculator's gravity
    w["atmos"].append({"kind": "vacuum", "altitude": [0.0, "Foot"], "temperature": [15.0, "Celsius"]})
    w["shots"].append(dict(w["shots"][trace_shot], atmo=len(w["atmos"]) - 1))
    vacuum_shot = len(w["shots"]) - 1
    # a weapon whose stored zero (1 degree) is far from any zero at these distances: with an iteration cap of 0 the
    # finder has no search step and cannot have met the accuracy, so it must raise
    w["weapons"].append({"sight_height": [2.0, "Inch"], "twist": [0, "Inch"], "zero": [1.0, "Degree"]})
    w["shots"].append({"weapon": len(w["weapons"]) - 1, "ammo": 0, "atmo": 0, "winds": None, "look": [0.0, "Degree"],
                       "relative": [0.0, "Degree"], "cant": [0.0, "Degree"]})
    offzero_shot = len(w["shots"]) - 1
    # "through the air": a slow, draggy projectile in ONE strong constant wind (head, tail or cross); the step is
    # measured relative to the moving air mass
    w["dms"].append({"table": 0, "bc": gen.pick(rng, [0.012, 0.03, 0.08])})
    w["ammos"].append({"dm": len(w["dms"]) - 1, "mv": [gen.pick(rng, [300.0, 400.0, 700.0]), "FPS"]})
    wind_fps, wind_dir = gen.pick(rng, [60.0, 100.0, 110.0]), gen.pick(rng, [180.0, 180.0, 0.0, 90.0, 200.0])
    w["winds"].append({"velocity": [wind_fps, "FPS"], "direction": [wind_dir, "Degree"]})
    w["windlists"].append([len(w["winds"]) - 1])
    w["shots"].append({"weapon": 1, "ammo": len(w["ammos"]) - 1, "atmo": 0, "winds": len(w["windlists"]) - 1,
                       "look": gen.gen_angle_deg(rng, gen.pick(rng, [0.0, 10.0, 45.0])), "relative": [0.0, "Degree"],
                       "cant": [0.0, "Degree"]})
    windy_shot = len(w["shots"]) - 1
    windy = [wind_fps * math.cos(math.radians(wind_dir)), wind_fps * math.sin(math.radians(wind_dir))]
    # a lob: almost vertical, slow, with the velocity limit switched off (the README's own configuration example uses
    # cMinimumVelocity = 0): at the apex the projectile is nearly at rest
    w["ammos"].append({"dm": 0, "mv": [gen.pick(rng, [80.0, 100.0, 150.0]), "FPS"]})
    w["shots"].append({"weapon": 1, "ammo": len(w["ammos"]) - 1, "atmo": 0, "winds": None,
                       "look": [gen.pick(rng, [89.9, 89.95, 89.0]), "Degree"], "relative": [0.0, "Degree"], "cant": [0.0, "Degree"]})
    lob_shot = len(w["shots"]) - 1
    prog = []
    live = []

    def gval():
        r = rng.random()
        feet = gen.pick(rng, [0.5, 1.0, 2.0, 3.0, 4.0, 8.0])
        if r < 0.15:
            return gen.pick(rng, [[0.0, "Foot"], [-1.0, "Meter"], {"bare": 0, "slot": "distance"}, {"bare": -2.5, "slot": "distance"}])
        if r < 0.35:
            # bare number: means the preferred distance unit (yards by default): keep the step reasonable in yards
            return {"bare": gen.pick(rng, [0.5, 1, 1.5, 2.0]), "slot": "distance"}
        return gen.gen_distance_ft(rng, feet, ("Foot", "Yard", "Meter", "Inch", "Centimeter"))

    n = rng.randint(8, 16)
    while len(prog) < n:
        r = rng.random()
        if r < 0.25:
            prog.append({"op": "gstep", "value": gval()})
        elif r < 0.32:
            prog.append({"op": "reset_globals"})
        elif r < 0.4:
            v = gval()
            if isinstance(v, dict) and v.get("bare") == 0 or (isinstance(v, list) and v[0] == 0):
                v = [2.0, "Foot"]            # basicConfig(max_calc_step_size=0) means "not given" (loads the config file)
            prog.append({"op": "basic_config", "step": v})
        elif r < 0.62 or not live:
            cfg = {}
            bare_default = rng.random() < 0.35          # Calculator() / Calculator(_config={}) : everything by default
            if not bare_default and rng.random() < 0.45:
                cfg["max_calc_step_size_feet"] = gen.pick(rng, [1.0, 2.0, 4.0, 8.0])
            for k, vals in (("cGravityConstant", [-32.17405, -25.0, -40.0]), ("cZeroFindingAccuracy", [5e-6, 1e-4]),
                            ("cMaxIterations", [20, 10, 40]), ("cMinimumVelocity", [50.0, 800.0, 1500.0]),
                            ("cMaximumDrop", [-15000.0, -5.0, -50.0]), ("cMinimumAltitude", [-1410.748, 0.0]),
                            ("chart_resolution", [0.2, 1.0])):
                if not bare_default and rng.random() < 0.25:
                    cfg[k] = gen.pick(rng, vals)
            if not bare_default and rng.random() < 0.12:
                cfg["cMaxIterations"] = 0
                cfg.setdefault("max_calc_step_size_feet", 4.0)
            w["calcs"].append({"config": cfg if (cfg or rng.random() < 0.5) else None})
            cid = len(w["calcs"]) - 1
            prog.append({"op": "new_calc", "calc": cid})
            live.append(cid)
            if cfg.get("cMaxIterations") == 0:
                prog.append({"op": "zero", "calc": cid, "shot": offzero_shot, "dist": [100.0, "Yard"], "cap0": True})
        else:
            c = gen.pick(rng, live)
            k = gen.pick(rng, ["fire", "fire", "zero", "trace", "gravity", "windy", "lob", "tiny"])
            if k == "fire":
                prog.append({"op": "fire", "calc": c, "shot": gen.pick(rng, shots), "range": simgen.gen_range(rng, 50, 300),
                             "step": [50.0, "Yard"]})
            elif k == "zero":
                prog.append({"op": "zero", "calc": c, "shot": gen.pick(rng, shots), "dist": simgen.gen_range(rng, 50, 200)})
            elif k == "lob":
                # needs a calculator without a velocity limit: create one on the spot
                w["calcs"].append({"config": {"cMinimumVelocity": 0.0, "cMaximumDrop": -30.0,
                                              "max_calc_step_size_feet": gen.pick(rng, [0.5, 1.0, 2.0])}})
                cid = len(w["calcs"]) - 1
                prog.append({"op": "new_calc", "calc": cid})
                live.append(cid)
                prog.append({"op": "fire", "calc": cid, "shot": lob_shot, "range": [3.0, "Yard"], "step": [1000.0, "Yard"],
                             "extra": True, "time_step": 1e-9, "trace": True, "lob": True})
            elif k == "tiny":
                # a maximum step far below anything usual, over a very short range (the bound must hold at any size)
                mx = gen.pick(rng, [0.004, 0.002, 0.008])
                w["calcs"].append({"config": {"max_calc_step_size_feet": mx}})
                cid = len(w["calcs"]) - 1
                prog.append({"op": "new_calc", "calc": cid})          # (not added to the pool of calculators for ordinary shots)
                prog.append({"op": "fire", "calc": cid, "shot": trace_shot, "range": [0.5, "Foot"], "step": [1000.0, "Yard"],
                             "extra": True, "time_step": 1e-12, "trace": True})
            elif k == "windy":
                prog.append({"op": "fire", "calc": c, "shot": windy_shot, "range": [gen.pick(rng, [20.0, 40.0]), "Yard"],
                             "step": [1000.0, "Yard"], "extra": True, "time_step": 1e-9, "trace": True, "wind": windy})
            elif k == "gravity":
                prog.append({"op": "fire", "calc": c, "shot": vacuum_shot, "range": [gen.pick(rng, [30.0, 60.0]), "Yard"],
                             "step": [1000.0, "Yard"], "extra": True, "time_step": 1e-9, "gravity_trace": True})
            else:
                prog.append({"op": "fire", "calc": c, "shot": trace_shot, "range": [gen.pick(rng, [40.0, 80.0, 150.0]), "Yard"],
                             "step": [1000.0, "Yard"], "extra": True, "time_step": 1e-9, "trace": True})
    import random as _random
    r3 = _random.Random(repr(rng.getstate()[1][:6]) + "far")            # side stream: other draws of a seed stay as they were
    if r3.random() < 0.05:
        # a fine maximum step and a far aim point: ONE pass of the zero search (iteration cap 1) takes 205-290 thousand
        # integration steps.  The zero search records no rows, so the step bound is checked by counting: a pass that reaches
        # distance D in steps of at most the configured maximum takes at least D / maximum steps
        mx = gen.pick(r3, [0.006, 0.008, 0.01])
        dist = round(r3.uniform(205_000, 290_000) * mx / 2.0, 1)
        w["calcs"].append({"config": {"max_calc_step_size_feet": mx, "cMaxIterations": 1, "cMinimumVelocity": 0.0}})
        cid = len(w["calcs"]) - 1
        prog.append({"op": "new_calc", "calc": cid})
        prog.append({"op": "elev", "calc": cid, "shot": trace_shot, "dist": [dist, "Foot"], "far_fine": True})
    prog.append({"op": "reset_globals"})
    r2 = _random.Random(repr(rng.getstate()[1][:6]) + "clone")          # side stream: other draws of a seed stay as they were
    for op in prog:
        # a COPY of the calculator (copy / deepcopy / pickle round trip, as when work is handed to another process) carries
        # the settings of the calculator it was copied from - not whatever the process-wide default is at copy time
        if op.get("op") == "fire" and r2.random() < 0.2:
            op["clone"] = {"what": gen.pick(r2, ["calc", "calc", "both"]), "how": gen.pick(r2, ["copy", "deepcopy", "pickle"])}
    return {"seed": seed, "mode18": "local", "world": w, "programs": [prog], "roles": {"0": "client"},
            "config": {"mode": gen.pick(rng, ["none", "cold"]), "policy": "serial", "mean_run": 1000, "opcode": False},
            "faults": []}


def _feet(value, slots):
    if isinstance(value, dict):
        return gen.to_feet([value["bare"], slots["distance"]])
    return gen.to_feet(value)


def check_local(spec, hist):
    """the small configuration model (global step) + the step bound, on top of the solo oracle"""
    viol = []
    prog = spec["programs"][0]
    res = hist["results"][0]
    model_g = 0.5
    calc_step = {}
    want_g = {op["calc"]: abs((spec["world"]["calcs"][op["calc"]].get("config") or {}).get("cGravityConstant", -32.17405))
              for op in prog if op["op"] == "new_calc"}

    def bad(inv, i, detail, **extra):
        viol.append({"sig": dict({"invariant": inv, "mode": "local"}, **extra), "detail": f"op {i}: {detail}",
                     "task": 0, "op_index": i})

    for i, op in enumerate(prog):
        if i >= len(res):
            break
        g = hist["globals_at"][0][i]
        obs = float.fromhex(g["gstep"])
        if abs(obs - model_g) > 1e-9 * max(model_g, 1e-12):
            bad("gstep.differs_from_model", i, f"global step is {obs!r} ft before this operation, the history implies {model_g!r} ft")
            model_g = obs
        k = op["op"]
        r = res[i]
        if k in ("gstep", "basic_config") and (k == "gstep" or op.get("step") is not None):
            v = op["value"] if k == "gstep" else op["step"]
            feet = _feet(v, g["slots"])
            if feet > 0:
                if r.get("kind") != "ok":
                    bad("gstep.valid_value_rejected", i, f"setting the global step to {v} failed: {r}")
                else:
                    model_g = feet
            else:
                if r.get("kind") != "exc":
                    bad("gstep.non_positive_accepted", i, f"non-positive global step {v} was not rejected")
        elif k == "reset_globals":
            model_g = 0.5
        elif k == "new_calc":
            cfg = spec["world"]["calcs"][op["calc"]].get("config") or {}
            calc_step[op["calc"]] = cfg.get("max_calc_step_size_feet", model_g)
            want = explicit_calc_cfg(cfg, float(calc_step[op["calc"]]).hex())
            got = (r.get("digest") or {}).get("config") if r.get("kind") == "ok" else None
            if got is not None:
                for key, val in want.items():
                    gv = got.get(key)
                    try:
                        gvf = float.fromhex(gv) if isinstance(gv, str) and not gv.startswith("i") else float(gv[1:])
                    except Exception:  # noqa
                        gvf = None
                    if gvf is None or abs(gvf - float(val)) > 1e-9 * max(1.0, abs(float(val))):
                        bad("config.field_not_default_or_given", i, f"calculator setting {key} is {gv}, expected {val} "
                                                                    f"(given {cfg.get(key, 'nothing: documented default')})", field=key)
        elif k == "fire" and op.get("trace") and r.get("kind") in ("ok", "exc"):
            rows = r["digest"].get("rows") if isinstance(r.get("digest"), dict) else None
            if rows and op["calc"] in calc_step:
                mx = calc_step[op["calc"]]
                worst = 0.0
                wx, wz = op.get("wind") or (0.0, 0.0)
                for a, b in zip(rows[1:-2], rows[2:-1]):
                    dt = float.fromhex(b[0]) - float.fromhex(a[0])
                    dx = (float.fromhex(b[1]) - float.fromhex(a[1])) / 12.0 - wx * dt      # relative to the air mass
                    dy = (float.fromhex(b[4]) - float.fromhex(a[4])) / 12.0
                    dz = (float.fromhex(b[7]) - float.fromhex(a[7])) / 12.0 - wz * dt
                    worst = max(worst, math.sqrt(dx * dx + dy * dy + dz * dz))
                if worst > mx * (1 + 1e-9):
                    slow = min(float.fromhex(x[2]) * 3.2808399 for x in rows[1:-1])
                    bad("step.exceeds_configured_maximum", i, f"an integration step advanced the projectile {worst!r} ft, "
                                                              f"the calculator's maximum step is {mx!r} ft (slowest point of the "
                                                              f"trace: {slow!r} fps)",
                        # "near rest": slower than the speed gravity imparts over one maximum step from rest
                        near_rest=bool(slow < math.sqrt(2 * abs(want_g.get(op["calc"], 32.17405)) * mx)))
    # the step bound by counting (covers the zero search, which records no rows): in still air a computation that carried
    # the projectile to distance D in steps of at most the maximum took at least D / maximum integration steps
    for i, op in enumerate(prog):
        if i >= len(res) or op["op"] not in ("fire", "zero", "elev") or op.get("calc") not in calc_step:
            continue
        r = res[i]
        sh = spec["world"]["shots"][op["shot"]]
        if sh.get("winds") is not None or r.get("steps") is None:
            continue
        reached = r.get("kind") == "ok" or (r.get("kind") == "exc" and isinstance(r.get("digest"), dict)
                                            and r["digest"].get("exc") == "ZeroFindingError" and r["digest"].get("iterations", 0) >= 1)
        dspec = op.get("range") or op.get("dist")
        if not reached or isinstance(dspec, dict):
            continue
        # fire: the range is horizontal; zero / elev: the distance is along the sight line and the pass ends at its
        # horizontal projection - the path is at least that long whatever the elevation tried
        lk = sh["look"]
        lk = spec["world"]["qpool"][lk["ref"]] if isinstance(lk, dict) else lk
        horiz = gen.to_feet(dspec) * (1.0 if op["op"] == "fire" else math.cos(math.radians(gen.to_deg(lk))))
        need = int(horiz / calc_step[op["calc"]]) - 2
        if r["steps"] < need:
            bad("step.fewer_steps_than_distance_over_maximum", i,
                f"{op['op']} to {gen.to_feet(dspec)!r} ft took {r['steps']} integration steps; with a maximum step of "
                f"{calc_step[op['calc']]!r} ft at least {need} are needed", far_fine=bool(op.get("far_fine")))
    # limits, iteration cap and accuracy honoured (the full truthfulness analysis of aborts is C04's, of caps C02's; here
    # only: the calculator's OWN settings - not another calculator's, not the defaults - are the ones that act)
    full = {}
    for i, op in enumerate(prog):
        if op["op"] == "new_calc":
            full[op["calc"]] = dict(CONFIG_DEFAULTS, **(spec["world"]["calcs"][op["calc"]].get("config") or {}))
        if i >= len(res) or op.get("calc") not in full:
            continue
        r, cfg = res[i], full[op["calc"]]
        if op["op"] == "fire" and isinstance(r.get("digest"), dict) and r["digest"].get("rows"):
            rows = r["digest"]["rows"]
            sh = spec["world"]["shots"][op["shot"]]
            aspec = spec["world"]["atmos"][sh["atmo"]]["altitude"]
            alt0 = gen.to_feet(spec["world"]["qpool"][aspec["ref"]] if isinstance(aspec, dict) else aspec)
            body = rows[1:-1] if r.get("kind") == "exc" else rows[1:]
            for n, row in enumerate(body, 1):
                v = float.fromhex(row[2]) * 3.2808399
                y = float.fromhex(row[4]) / 12.0
                if v < cfg["cMinimumVelocity"] * (1 - 1e-3) - 1e-6 or y < cfg["cMaximumDrop"] - 1e-6 * abs(cfg["cMaximumDrop"]) - 1e-9 \
                        or alt0 + y < cfg["cMinimumAltitude"] - 1e-6 * (abs(cfg["cMinimumAltitude"]) + abs(alt0)) - 1e-9:
                    bad("limits.not_honoured", i, f"row {n} (v={v!r} fps, y={y!r} ft, altitude {alt0 + y!r} ft) is beyond this "
                                                  f"calculator's limits {cfg['cMinimumVelocity']}, {cfg['cMaximumDrop']}, {cfg['cMinimumAltitude']}")
                    break
            if r.get("kind") == "exc" and r["digest"].get("exc") == "RangeError":
                v = float.fromhex(rows[-1][2]) * 3.2808399
                y = float.fromhex(rows[-1][4]) / 12.0
                ok = {"Minimum velocity reached": v < cfg["cMinimumVelocity"] * (1 + 1e-9),
                      "Maximum drop reached": y < cfg["cMaximumDrop"] + 1e-9 * abs(cfg["cMaximumDrop"]) + 1e-12,
                      "Minimum altitude reached": alt0 + y < cfg["cMinimumAltitude"] + 1e-9 * (abs(cfg["cMinimumAltitude"]) + abs(alt0)) + 1e-12}
                if not ok.get(r["digest"].get("reason"), False):
                    bad("limits.not_honoured", i, f"range error {r['digest'].get('reason')!r} but the last row (v={v!r}, y={y!r}, "
                                                  f"altitude {alt0 + y!r}) does not violate this calculator's limit")
        if op.get("cap0") and r.get("kind") == "ok":
            bad("iteration_cap.not_honoured", i, "zeroing with an iteration cap of 0 from a stored zero of 1 degree returned an "
                                                 "angle: the cap given to this calculator did not act")
        if op["op"] in ("zero", "elev") and r.get("kind") == "exc" and isinstance(r.get("digest"), dict) \
                and r["digest"].get("exc") == "ZeroFindingError":
            if r["digest"]["iterations"] > cfg["cMaxIterations"]:
                bad("iteration_cap.not_honoured", i, f"{r['digest']['iterations']} iterations, this calculator's cap is {cfg['cMaxIterations']}")
            if not float.fromhex(r["digest"]["error"]) > cfg["cZeroFindingAccuracy"]:
                bad("zero_accuracy.not_honoured", i, f"ZeroFindingError with error {float.fromhex(r['digest']['error'])!r} although this "
                                                     f"calculator's accuracy is {cfg['cZeroFindingAccuracy']!r}")
    # gravity honoured: in a vacuum the vertical velocity changes by exactly g per second between integration points
    calc_g = {}
    for i, op in enumerate(prog):
        if op["op"] == "new_calc":
            calc_g[op["calc"]] = (spec["world"]["calcs"][op["calc"]].get("config") or {}).get("cGravityConstant", -32.17405)
        if op["op"] == "fire" and op.get("gravity_trace") and i < len(res) and res[i].get("kind") in ("ok", "exc"):
            rows = res[i]["digest"].get("rows") if isinstance(res[i].get("digest"), dict) else None
            if rows and len(rows) > 6 and op["calc"] in calc_g:
                g = calc_g[op["calc"]]
                worst = 0.0
                for a, b in zip(rows[2:-2], rows[3:-1]):
                    dt = float.fromhex(b[0]) - float.fromhex(a[0])
                    if dt <= 0:
                        continue
                    vya = float.fromhex(a[2]) * 3.2808399 * math.sin(float.fromhex(a[10]))
                    vyb = float.fromhex(b[2]) * 3.2808399 * math.sin(float.fromhex(b[10]))
                    worst = max(worst, abs((vyb - vya) / dt - g))
                if worst > 1e-6 * abs(g) + 1e-6:
                    bad("gravity.not_honoured", i, f"vertical acceleration in a vacuum deviates from the calculator's "
                                                   f"gravity {g!r} by {worst!r} ft/s^2")
    fin = float.fromhex(hist["final_globals"]["gstep"])
    if abs(fin - 0.5) > 1e-12:
        bad("gstep.differs_from_model", len(prog), f"global step {fin!r} after reset_globals()")
    return viol


# ===============================================================================================================
# race: calculator creation vs global-step flips

def gen_race(seed, tier):
    rng = rng_for(seed, "program")
    w = empty_world()
    progA = []
    for _ in range(rng.randint(3, 8)):
        cfg = {}
        if rng.random() < 0.3:
            cfg["max_calc_step_size_feet"] = gen.pick(rng, [1.0, 2.0, 4.0])
        if rng.random() < 0.3:
            cfg["cMinimumVelocity"] = gen.pick(rng, [100.0, 75.0])
        if rng.random() < 0.2:
            cfg["cGravityConstant"] = -30.0
        w["calcs"].append({"config": cfg if (cfg or rng.random() < 0.5) else None})
        progA.append({"op": "new_calc", "calc": len(w["calcs"]) - 1})
    vals = rng.sample([0.75, 1.25, 1.5, 2.5, 3.0, 3.5, 6.0, 7.0, 9.0], rng.randint(2, 5))
    progB = []
    for v in vals:
        progB.append({"op": "gstep", "value": gen.gen_distance_ft(rng, v, ("Foot", "Yard", "Meter"))})
        if rng.random() < 0.3:
            progB.append({"op": "reset_globals"})
    cfg = {"mode": "line", "policy": gen.pick(rng, ["uniform", "pct", "boundary"]), "mean_run": gen.pick(rng, [1, 2, 5, 20]),
           "opcode": rng.random() < 0.6, "pct_depth": rng.randint(1, 3)}
    return {"seed": seed, "mode18": "race", "world": w, "programs": [progA, progB], "roles": {"0": "client", "1": "admin"},
            "config": cfg, "faults": [], "gvalues": vals}


def _race_child(spec):
    from pbsim.simrun import simulate
    return simulate(spec)


def check_race(spec, hist):
    viol = []
    allowed = [0.5] + list(spec["gvalues"])
    for i, op in enumerate(spec["programs"][0]):
        if i >= len(hist["results"][0]):
            break
        r = hist["results"][0][i]
        if r.get("kind") != "ok":
            viol.append({"sig": {"invariant": "race.calculator_creation_failed", "mode": "race"},
                         "detail": f"op {i}: creating a calculator while the global step is being set failed: {r}",
                         "task": 0, "op_index": i})
            continue
        cfg = spec["world"]["calcs"][op["calc"]].get("config") or {}
        got = r["digest"]["config"]
        for key, dv in CONFIG_DEFAULTS.items():
            gv = float.fromhex(got[key])
            if key == "max_calc_step_size_feet" and key not in cfg:
                if not any(abs(gv - a) <= 1e-9 * a for a in allowed):
                    viol.append({"sig": {"invariant": "race.step_is_no_value_the_global_held", "mode": "race"},
                                 "detail": f"op {i}: calculator step {gv!r} ft is none of the values the global step "
                                           f"held during the run {allowed}", "task": 0, "op_index": i})
            else:
                want = float(cfg.get(key, dv))
                if abs(gv - want) > 1e-9 * max(1.0, abs(want)):
                    viol.append({"sig": {"invariant": "config.field_not_default_or_given", "mode": "race", "field": key},
                                 "detail": f"op {i}: calculator setting {key} = {gv!r}, expected {want!r}",
                                 "task": 0, "op_index": i})
    return viol


# ===============================================================================================================
# file: configuration files behind the fs seam

FAULTS = ["none", "none", "enoent_open", "eacces_open", "eio_open", "isdir_open", "eio_read", "short_read", "short_read",
          "flip", "flip", "replaced", "getcwd_fail"]


def render_name(rng, uname):
    """a documented spelling of the unit in a random letter case, sometimes padded with blanks"""
    name = gen.pick(rng, [uname] + UNIT_ALIASES[uname])
    k = rng.random()
    if k < 0.25:
        name = name.lower()
    elif k < 0.45:
        name = name.upper()
    elif k < 0.6:
        name = name.title()
    elif k < 0.7:
        name = "".join(c.upper() if rng.random() < 0.5 else c.lower() for c in name)
    if rng.random() < 0.15:
        name = " " + name + "  "
    return name


def gen_toml(rng, decoy=False):
    lines = ["# generated config", 'title = "sim"', ""]
    assign = {}
    if rng.random() < 0.92:
        lines.append("[pybc.preferred_units]")
        for slot in rng.sample(sorted(SLOTS), rng.randint(1 if not decoy else 15, 15)):
            dim = SLOTS[slot][0]
            if rng.random() < 0.12 and not decoy:
                val = gen.pick(rng, ["xyz", "meterz", "defaults", "set", "__doc__", "footpounds", ""])
            else:
                val = render_name(rng, gen.pick(rng, DIMS[dim]))
            q = gen.pick(rng, ["'", '"'])
            if q in val:
                q = '"' if q == "'" else "'"
            if rng.random() < 0.04 and not decoy:
                # a value that is not a name at all (TOML boolean / number): it names no unit, the slot must stay
                lines.append(f"{slot} = {gen.pick(rng, ['true', 'false', '17', '2.5'])}")
                continue
            lines.append(f"{slot} = {q}{val}{q}" + ("   # c" if rng.random() < 0.1 else ""))
            assign[slot] = val
        if rng.random() < 0.2:
            # keys that are not slots - some of them names of attributes the settings class happens to have
            lines.append(f"{gen.pick(rng, ['nonsense_slot', 'defaults', 'set', '__doc__', 'mro'])} = 'Meter'")
        lines.append("")
    step = None
    if rng.random() < 0.7:
        value = gen.pick(rng, [0.5, 1.0, 2.0, 0.25, 3, 1.5, -1.0, 0])
        units = gen.pick(rng, ["Foot", "Meter", "Yard", "Inch", "Centimeter", "foot", "METER", "ft", "yd", "Celsius", "nope"])
        if rng.random() < 0.5:
            lines.append("[pybc.calculator]")
            lines.append(f'max_calc_step_size = {{ value = {value}, units = "{units}" }}')
        else:
            lines.append("[pybc.calculator.max_calc_step_size]")
            lines.append(f"value = {value}")
            lines.append(f'units = "{units}"')
        step = [value, units]
    elif rng.random() < 0.3:
        lines.append("[pybc.calculator]")
    text = "\n".join(lines) + ("\n" if rng.random() < 0.8 else "")
    return text, assign, step


def gen_file(seed, tier):
    rng = rng_for(seed, "program")
    depth = rng.randint(0, 4)
    parts = ["/sim"] + ["d%d" % i for i in range(depth)]
    cwd = "/".join(parts) if depth else "/sim"
    files = {}
    where = gen.pick(rng, ["cwd", "ancestor", "package", "none", "explicit", "cwd", "ancestor", "preset"])
    text, assign, step = gen_toml(rng)
    if rng_for(seed, "crlf").random() < 0.15:
        text = text.replace("\n", "\r\n")            # a file written on Windows (valid TOML; a torn read may end on a bare CR)
    if where == "preset":
        # one of the three SHIPPED preset files, read through the same loader: faults on it are faults too
        which = gen.pick(rng, ["metrics", "imperial", "mixed"])
        loads = []
        for _ in range(rng.randint(1, 3)):
            f = gen.pick(rng, FAULTS)
            loads.append({"fault": f, "arg": None, "arg_frac": rng.random(), "mask": 1 << rng.randint(0, 7),
                          "replacement": gen_toml(rng)[0] if f == "replaced" else None,
                          "pre": gen.pick(rng, ["defaults", "metric", "imperial", "odd"]), "pre_gstep": gen.pick(rng, [0.5, 3.0])})
        return {"seed": seed, "mode18": "file", "cwd": "/sim", "where": "preset", "preset": which,
                "target": f"<PKG>/assets/.pybc-{which}.toml", "files": {}, "decoys": {}, "text": "", "loads": loads, "sweep": None}
    target = None
    anc = ["/".join(parts[:k]) or "/" for k in range(len(parts), 0, -1)] + ["/"]
    fname = gen.pick(rng, [".pybc.toml", "pybc.toml"])
    if where == "cwd":
        target = anc[0].rstrip("/") + "/" + fname
    elif where == "ancestor":
        target = gen.pick(rng, anc).rstrip("/") + "/" + fname
    elif where == "package":
        target = "<PKG>/" + fname if rng.random() < 0.5 else "<PKGPARENT>/" + fname
    elif where == "explicit":
        target = "/etc/sim/custom.toml"
    if target:
        files[target] = text
    # decoys that must NOT be chosen: lower-precedence name in the same directory, deeper directories, siblings
    decoys = {}
    if target and where in ("cwd", "ancestor"):
        d = target.rsplit("/", 1)[0]
        if fname == ".pybc.toml" and rng.random() < 0.5:
            decoys[d + "/pybc.toml"] = gen_toml(rng, decoy=True)[0]
        up = [a for a in anc if len(a) < len(d)]
        if up and rng.random() < 0.6:
            decoys[gen.pick(rng, up).rstrip("/") + "/" + gen.pick(rng, [".pybc.toml", "pybc.toml"])] = gen_toml(rng, decoy=True)[0]
        if rng.random() < 0.5:
            decoys["<PKG>/.pybc.toml"] = gen_toml(rng, decoy=True)[0]
    if rng.random() < 0.4:
        decoys[cwd.rstrip("/") + "/sub/.pybc.toml"] = gen_toml(rng, decoy=True)[0]
    loads = []
    n_loads = rng.randint(1, 3)
    for _ in range(n_loads):
        f = gen.pick(rng, FAULTS)
        arg = None
        if f == "short_read":
            arg = rng.randint(0, max(0, len(text.encode()) - 1))
        elif f == "flip":
            arg = [rng.randint(0, max(0, len(text.encode()) - 1)), 1 << rng.randint(0, 7)]
        elif f == "replaced":
            arg = gen_toml(rng)[0]
        loads.append({"fault": f, "arg": arg, "pre": gen.pick(rng, ["defaults", "metric", "imperial", "odd"]),
                      "pre_gstep": gen.pick(rng, [0.5, 0.5, 3.0])})
    sweep = None
    if target and rng.random() < (0.25 if tier == "quick" else 0.5):
        n = len(text.encode())
        if tier == "quick":
            stride = max(1, n // 16)
            sweep = list(range(rng.randrange(stride), n, stride))
        else:
            sweep = list(range(0, n + 1))
    return {"seed": seed, "mode18": "file", "cwd": cwd, "where": where, "target": target, "files": files, "decoys": decoys,
            "text": text, "loads": loads, "sweep": sweep}


_ASSIGN = re.compile(r"""^\s*([A-Za-z_][A-Za-z_0-9]*)\s*=\s*(['"])(.*?)\2\s*(?:#.*)?$""")
_VALUE = re.compile(r"value\s*=\s*([-+]?[0-9.]+(?:[eE][-+]?[0-9]+)?)")
_UNITS = re.compile(r"""units\s*=\s*(['"])([^'"]*)\1""")


def expected_exact(doc):
    """from a parsed TOML document: ({slot: unit name} for valid entries, step feet or None)"""
    exp, stepft = {}, None
    py = doc.get("pybc")
    if not isinstance(py, dict):
        return exp, None, False
    pu = py.get("preferred_units")
    all_valid = True
    if isinstance(pu, dict):
        for k, v in pu.items():
            if k in SLOTS and isinstance(v, str):
                u = resolve(v)
                if u is not None:
                    exp[k] = u
                else:
                    all_valid = False
            else:
                all_valid = False
    calc = py.get("calculator")
    if isinstance(calc, dict):
        m = calc.get("max_calc_step_size")
        if isinstance(m, dict):
            val, un = m.get("value"), m.get("units")
            u = resolve(un) if isinstance(un, str) else None
            if isinstance(val, (int, float)) and not isinstance(val, bool) and val > 0 and u is not None and UNIT_DIM[u] == "Distance":
                stepft = gen.to_feet([val, u])
            else:
                all_valid = False
    return exp, stepft, all_valid


def allowed_relaxed(data):
    """tolerant scan of delivered bytes: {slot: set(unit names)} named by complete assignments, set of step feet"""
    slots, steps = {}, set()
    if data is None:
        return slots, steps
    text = data.decode("utf-8", "replace")
    for line in text.splitlines():
        m = _ASSIGN.match(line)
        if m and m.group(1) in SLOTS:
            u = resolve(m.group(3))
            if u is not None:
                slots.setdefault(m.group(1), set()).add(u)
    vals = []
    for x in _VALUE.findall(text):
        try:
            vals.append(float(x))
        except ValueError:          # '1.5.' after a flipped byte: not a number, names nothing
            pass
    uns = [resolve(x[1]) for x in _UNITS.findall(text)]
    for v in vals:
        for u in uns:
            if u is not None and UNIT_DIM[u] == "Distance" and v > 0:
                steps.add(gen.to_feet([v, u]))
    return slots, steps


def _set_pre(pre, gstep):
    pb = lib.pb
    import py_ballisticcalc.trajectory_calc as tc
    pb.PreferredUnits.defaults()
    if pre == "metric":
        pb.loadMetricUnits()
    elif pre == "imperial":
        pb.loadImperialUnits()
    elif pre == "odd":
        _apply_settings("odd")
    pb.reset_globals()
    if gstep != 0.5:
        pb.set_global_max_calc_step_size(pb.Unit.Foot(gstep))


def _state():
    pb = lib.pb
    return ({s: getattr(pb.PreferredUnits, s) for s in SLOTS}, lib.global_step_feet())


def _one_load(spec, load, pkgdir):
    """perform one load under one fault; returns (violations, info)"""
    import tomllib
    pb = lib.pb
    import py_ballisticcalc as pkg
    import builtins
    viol = []

    def sub(p):
        return p.replace("<PKGPARENT>", pkgdir.rsplit("/", 1)[0]).replace("<PKG>", pkgdir)

    files = {sub(p): t.encode() for p, t in spec["files"].items()}
    files.update({sub(p): t.encode() for p, t in spec["decoys"].items()})
    target = sub(spec["target"]) if spec["target"] else None
    if spec["where"] == "preset":
        with builtins.open(target, "rb") as fh:        # the real shipped file: its bytes go behind the seam
            files[target] = fh.read()
        n = len(files[target])
        load = dict(load)
        if load["fault"] == "short_read":
            load["arg"] = int(load["arg_frac"] * n)
        elif load["fault"] == "flip":
            load["arg"] = [int(load["arg_frac"] * (n - 1)), load["mask"]]
        elif load["fault"] == "replaced":
            load["arg"] = load["replacement"]
    arg = load["arg"]
    if load["fault"] == "replaced":
        arg = arg.encode()
    elif load["fault"] == "flip":
        arg = tuple(arg)
    fs = FakeFS(files, spec["cwd"], fault=None if load["fault"] == "none" else load["fault"], fault_path=target,
                fault_arg=arg, passthrough_open=(lambda p: p.startswith(pkgdir + "/assets"), builtins.open))
    _set_pre(load["pre"], load["pre_gstep"])
    pre_slots, pre_g = _state()
    undo = fs.install(pkg)
    exc = None
    try:
        try:
            if spec["where"] == "explicit":
                pb.basicConfig(target)
            elif spec["where"] == "preset":
                {"metrics": pb.loadMetricUnits, "imperial": pb.loadImperialUnits, "mixed": pb.loadMixedUnits}[spec["preset"]]()
            else:
                pb.basicConfig()
        except BaseException as e:  # noqa
            exc = e
    finally:
        undo()
    post_slots, post_g = _state()
    # which file should have been found
    expected = target
    if load["fault"] == "getcwd_fail":
        # an injected error (the loader asks for the cwd even when given an explicit path): raise, or apply nothing
        # but what the expected file names
        delivered = fs.content_after_fault(expected) if (expected and spec["where"] in ("explicit", "preset")) else None
        relaxed_only = True
    else:
        delivered = fs.content_after_fault(expected) if expected else None
        relaxed_only = False
    doc = None
    if delivered is not None:
        try:
            doc = tomllib.loads(delivered.decode("utf-8"))
        except Exception:  # noqa
            doc = None
    info = {"fault": load["fault"], "fired": fs.fired, "raised": type(exc).__name__ if exc else None,
            "complete": doc is not None, "where": spec["where"]}
    tag = {}

    def bad(inv, detail):
        viol.append({"sig": dict({"invariant": inv, "mode": "file"}, **tag), "detail": detail})

    # invariant: a key that is not a slot must not clobber the class (PreferredUnits.defaults / .set stay methods)
    import inspect
    for meth in ("defaults", "set"):
        if not inspect.ismethod(getattr(pb.PreferredUnits, meth, None)):
            bad("file.non_slot_key_clobbered_attribute", f"after loading, PreferredUnits.{meth} is {_r(getattr(pb.PreferredUnits, meth, None))}, "
                                                         f"no longer the classmethod")
            setattr(pb.PreferredUnits, meth, _PRISTINE_METHODS[meth])       # so that the run can go on
    # invariant: every slot holds a Unit
    for s, v in post_slots.items():
        if not isinstance(v, pb.Unit):
            bad("file.slot_holds_non_unit", f"slot {s} holds {_r(v)} after loading (fault {load['fault']})")
    if expected is None and not relaxed_only:
        # no file anywhere: nothing may change, nothing may be raised
        if post_slots != pre_slots or post_g != pre_g:
            bad("file.changed_without_file", "settings changed although no configuration file exists on the search path")
        if exc is not None:
            bad("file.raised_without_file", f"basicConfig() raised {type(exc).__name__} although no file exists")
        return viol, info
    if doc is not None and not relaxed_only:
        exp, stepft, all_valid = expected_exact(doc)
        for s in SLOTS:
            want = getattr(pb.Unit, exp[s]) if s in exp else pre_slots[s]
            if post_slots[s] is not want:
                bad("file.assignment_not_applied_exactly",
                    f"slot {s}: {_r(post_slots[s])} after loading, the delivered document says {exp.get(s, 'nothing (unchanged ' + _r(pre_slots[s]) + ')')}")
                break
        wantg = stepft if stepft is not None else pre_g
        if abs(post_g - wantg) > 1e-9 * max(wantg, 1e-12):
            bad("file.step_not_applied_exactly", f"global step {post_g!r} ft after loading, the delivered document says "
                                                 f"{stepft if stepft is not None else 'nothing valid (unchanged)'}")
        if exc is not None and all_valid:
            bad("file.valid_document_raised", f"a complete, valid document made the loader raise {type(exc).__name__}: {exc}")
        return viol, info
    # relaxed: raise, or unchanged, or named by a complete assignment in the delivered bytes
    slots_ok, steps_ok = allowed_relaxed(delivered)
    for s in SLOTS:
        if post_slots[s] is pre_slots[s]:
            continue
        if isinstance(post_slots[s], pb.Unit) and post_slots[s].name in slots_ok.get(s, ()):
            continue
        bad("file.faulty_load_selected_another_unit",
            f"slot {s} went {_r(pre_slots[s])} -> {_r(post_slots[s])}; the delivered bytes name {sorted(slots_ok.get(s, []))} for it")
        break
    if post_g != pre_g and not any(abs(post_g - x) <= 1e-9 * x for x in steps_ok):
        bad("file.faulty_load_changed_step", f"global step went {pre_g!r} -> {post_g!r}; delivered bytes give {sorted(steps_ok)}")
    return viol, info


_PRISTINE_METHODS = {}


def _file_child(spec, only_load=None):
    for meth in ("defaults", "set"):
        _PRISTINE_METHODS[meth] = lib.pb.PreferredUnits.__dict__[meth]      # the classmethod objects themselves
    lib.reset_globals()
    pkgdir = lib.LIBDIR.rstrip("/")
    viol, infos = [], []
    loads = list(spec["loads"])
    if spec.get("sweep") and only_load is None:
        for k in spec["sweep"]:
            loads.append({"fault": "short_read", "arg": k, "pre": "defaults", "pre_gstep": 0.5, "sweep": True})
    if only_load is not None:
        loads = [only_load]
    for ld in loads:
        v, info = _one_load(spec, ld, pkgdir)
        for x in v:
            x["replay"] = {"file_spec": spec, "only_load": ld}
        viol += v
        infos.append(info)
    lib.reset_globals()
    return {"violations": viol, "infos": infos, "digest": sha([infos, [x["sig"] for x in viol]])}


# ===============================================================================================================

def run_case(seed, tier, idx):
    mode = mode_of(seed, idx)
    if mode == "names":
        res = run_in_fork(_names_child, (), timeout=600)
        return {"violations": res["violations"], "digest": res["digest"], "mode18": "names", "nontrivial": True,
                "names": {"checks": res["n_checks"], "names": res["n_names"], "cases": res["n_cases"], "exhaustive": res["exhaustive"]},
                "sample": {"mode": "names", "names_in_table": res["n_names"], "checks": res["n_checks"],
                           "case_variants": ["as_documented", "lower", "upper", "title"], "prefixes": PREFIXES}}
    if mode == "local":
        spec = gen_local(seed, tier)
        hist, viol, stats = run_spec(spec)
        viol = [_tag(v, "local") for v in viol] + check_local(spec, hist)
        rec = record(spec, hist, viol, stats)
        rec["mode18"] = "local"
        rec["nontrivial"] = True
        return rec
    if mode == "race":
        spec = gen_race(seed, tier)
        hist = run_in_fork(_race_child, (spec,), timeout=300)
        viol = check_race(spec, hist)
        rec = record(spec, hist, viol, {"compared": 0, "after_failure": 0, "interrupted": 0, "raising": 0, "solo_runs": 0})
        rec["mode18"] = "race"
        return rec
    spec = gen_file(seed, tier)
    res = run_in_fork(_file_child, (spec,), timeout=300)
    return {"violations": res["violations"], "digest": res["digest"], "mode18": "file", "infos": res["infos"],
            "nontrivial": any(i["fired"] for i in res["infos"]),
            "sample": {"mode": "file", "cwd": spec["cwd"], "where": spec["where"], "target": spec["target"],
                       "decoys": sorted(spec["decoys"]), "loads": [{k: v for k, v in ld.items() if k != "arg"} for ld in spec["loads"]],
                       "truncation_offsets_swept": len(spec["sweep"] or []), "text_head": spec["text"][:200]}}


def _tag(v, mode):
    s = dict(v["sig"])
    s.setdefault("mode", mode)
    v["sig"] = s
    return v


def replay_case(rep):
    if "names_only" in rep:
        res = run_in_fork(_names_child, (rep["names_only"],), timeout=300)
        return {"violations": res["violations"], "digest": res["digest"]}
    if "file_spec" in rep:
        res = run_in_fork(_file_child, (rep["file_spec"], rep["only_load"]), timeout=300)
        return {"violations": res["violations"], "digest": res["digest"]}
    spec = rep["spec"]
    if spec.get("mode18") == "race":
        hist = run_in_fork(_race_child, (spec,), timeout=300)
        return {"violations": check_race(spec, hist), "digest": hist["digest"]}
    hist, viol, stats = run_spec(spec)
    return {"violations": [_tag(v, "local") for v in viol] + check_local(spec, hist), "digest": hist["digest"]}


def minimise(rep):
    if "spec" not in rep:
        return rep

    def runner(spec):
        if spec.get("mode18") == "race":
            hist = run_in_fork(_race_child, (spec,), timeout=120)
            return hist, check_race(spec, hist), {}
        hist, viol, stats = run_spec(spec, timeout=300)
        return hist, [_tag(v, "local") for v in viol] + check_local(spec, hist), stats
    return minimise_spec(rep, runner=runner)


def summarise(records):
    sims = [r for r in records if r["mode18"] in ("local", "race")]
    cov = summarise_sim(sims) if sims else {"fault_kinds_fired": {}}
    names = [r for r in records if r["mode18"] == "names"]
    files = [r for r in records if r["mode18"] == "file"]
    fk = {}
    loads = fired = complete = raised = 0
    wheres = {}
    for r in files:
        for i in r["infos"]:
            loads += 1
            fired += bool(i["fired"])
            complete += bool(i["complete"])
            raised += i["raised"] is not None
            if i["fired"]:
                fk["fs_" + i["fault"]] = fk.get("fs_" + i["fault"], 0) + 1
            wheres[i["where"]] = wheres.get(i["where"], 0) + 1
    cov["rule"] = ("C18 runs four sub-engines (names / local / race / file, see DESIGN section 6); one evaluation = one "
                   "exhaustive pass over the name table, one simulated settings history, one creation race, or one file "
                   "scenario with its loads; non-trivial: names pass (always), local history (always: every history "
                   "changes the global step and creates calculators), race/file run in which a cross-task switch inside "
                   "the touch set happened or a file fault fired; distinct = distinct digests")
    cov["evaluations"] = len(records)
    cov["distinct_nontrivial"] = len({r["digest"] for r in records if r.get("nontrivial")})
    cov["runs_by_sub_engine"] = {m: sum(1 for r in records if r["mode18"] == m) for m in ("names", "local", "race", "file")}
    cov["name_table"] = names[0]["names"] if names else None
    cov["exhaustive"] = False
    cov["exhaustive_note"] = "the name clause (finite table) is enumerated completely; the other clauses are sampled"
    cov["file_loads"] = {"total": loads, "fault_fired": fired, "delivered_complete_toml": complete, "loader_raised": raised,
                         "by_file_location": wheres}
    f2 = dict(cov.get("fault_kinds_fired", {}))
    f2.update(fk)
    f2["gstep_flip(admin vs creation)"] = sum(1 for r in records if r["mode18"] == "race")
    cov["fault_kinds_fired"] = f2
    cov["samples"] = [r["sample"] for r in (names[:1] + [r for r in records if r["mode18"] == "local"][:1] +
                                             [r for r in records if r["mode18"] == "race"][:1] + files[:2]) if "sample" in r]
    return cov
