"""C04 - every call terminates, and an incomplete trajectory is reported truthfully.

Abort-point sweep (fault kind `lib_abort`): the library's own limit aborts are positioned, through the calculator's
configuration, midway between two consecutive states of a reference run with relaxed (finite) limits; every abort
is checked for truthfulness, and every call runs under a deterministic step budget counted at the atmosphere seam
(bounded liveness, no clock)."""
import math

from pbsim import gen, lib
from pbsim.digest import dexc, drows
from pbsim.forkrun import run_in_fork
from pbsim.util import fhex, rng_for, sha, unhex
from pbsim.world import Builder, empty_world

ID = "C04"
LEVEL = "fault_enumeration"
STUBS = ("scheduler/sweep driver; the atmosphere object handed to the solver is a subclass of the real Atmo/Vacuum "
         "whose per-step method counts the call and then delegates to the real implementation")
ASSUMPTIONS = [
    "abort points are enumerated on a seeded stride through the reference run's rows; shots are sampled, not enumerated",
    "thresholds sit midway between consecutive reference states, so a one-ulp unit round trip cannot flip a comparison",
    "step budget = 8 x (piecewise-monotone path bound / integration step) + 2000 for the relaxed reference run; a "
    "limited run must end no later than its reference run (steps_ref + 2)",
    "rows are compared on base-unit magnitudes, bit for bit; display units are free",
    "CPython float arithmetic is deterministic on one machine",
]
G = 32.17405
FPS_PER_MPS = 3.2808399
REASONS = {"v": "Minimum velocity reached", "d": "Maximum drop reached", "a": "Minimum altitude reached"}


class BudgetExceeded(BaseException):
    pass


def plan(tier):
    return {"runs": 400} if tier == "quick" else {"runs": 40000, "budget": 900.0}


# ---------------------------------------------------------------------------------------------------------------
# case generation (worker side, plain data)

def gen_case(seed, tier):
    rng = rng_for(seed, "case")
    kind = gen.pick(rng, ["level", "level", "normal", "steep_up", "vertical", "downward", "slow", "zero_velocity",
                          "beyond_reach", "tail_wind"] + (["high_vacuum"] if rng.random() < 0.25 else []))
    w = empty_world()
    w["tables"].append(gen.gen_table(rng, custom_p=0.1))
    dm = gen.gen_dm(rng, 0, mbc_p=0.1)
    w["dms"].append(dm)
    step = gen.pick(rng, [1.0, 2.0, 4.0, 8.0, 16.0])
    mv = rng.uniform(1500, 3200)
    look = rng.uniform(-3, 3)
    rng_yd = rng.uniform(100, 1200)
    if kind == "steep_up":
        look = rng.uniform(30, 80)
        step = gen.pick(rng, [2.0, 4.0, 8.0, 16.0])
    elif kind == "vertical":
        look = gen.pick(rng, [90.0, 89.99, 90.0, 89.0])
        mv = rng.uniform(300, 1200)
        step = gen.pick(rng, [4.0, 8.0, 16.0])
    elif kind == "downward":
        look = -rng.uniform(30, 85)
        step = gen.pick(rng, [2.0, 4.0, 8.0])
    elif kind == "slow":
        mv = rng.uniform(55, 400)
        rng_yd = rng.uniform(20, 300)
    elif kind == "zero_velocity":
        mv = 0.0
        rng_yd = rng.uniform(10, 100)
    elif kind == "tail_wind":
        mv = rng.uniform(80, 400)                 # slow projectile, strong wind from behind (set below)
        rng_yd = rng.uniform(30, 250)
    elif kind == "high_vacuum":
        mv = rng.uniform(3400, 3600)              # a near-vertical shot in a vacuum climbs far above the troposphere
        look = rng.uniform(86, 89.5)
        step = 16.0
        rng_yd = rng.uniform(100, 1000)
    elif kind == "beyond_reach":
        mv = rng.uniform(600, 1500)
        rng_yd = rng.uniform(3000, 6000)
        step = gen.pick(rng, [4.0, 8.0, 16.0])
        look = rng.uniform(0, 20)
    w["ammos"].append({"dm": 0, "mv": gen.gen_velocity_fps(rng, round(mv, 2))})
    w["weapons"].append({"sight_height": [round(rng.uniform(-1, 4), 2), "Inch"],
                         "twist": [gen.pick(rng, [0, 8, 10, 12, -9]), "Inch"],
                         "zero": gen.gen_angle_deg(rng, round(rng.uniform(-0.2, 0.6), 4))})
    atmo = gen.gen_atmo(rng, max_alt_ft=9000)
    if kind == "high_vacuum":
        atmo = {"kind": "vacuum", "altitude": [round(rng.uniform(0, 3000), 1), "Foot"], "temperature": [15.0, "Celsius"]}
    w["atmos"].append(atmo)
    nw = gen.pick(rng, [0, 0, 1, 2])
    if kind == "tail_wind":
        nw = 1
    range_ft = rng_yd * 3
    wl = []
    for i in range(nw):
        until = None if i == nw - 1 and rng.random() < 0.5 else round(range_ft * rng.uniform(0.1, 1.2), 1)
        w["winds"].append(gen.gen_wind(rng, max_fps=45.0, until_ft=until))
        if kind == "tail_wind":
            w["winds"][-1] = {"velocity": [round(rng.uniform(30, 70), 1), "FPS"], "direction": [round(rng.uniform(-20, 20), 1), "Degree"]}
        wl.append(i)
    w["windlists"].append(wl)
    w["shots"].append({"weapon": 0, "ammo": 0, "atmo": 0, "winds": 0 if nw else None,
                       "look": gen.gen_angle_deg(rng, round(look, 4)),
                       "relative": gen.gen_angle_deg(rng, round(rng.uniform(-0.5, 1.5), 4)),
                       "cant": gen.gen_angle_deg(rng, gen.pick(rng, [0.0, 0.0, round(rng.uniform(-30, 30), 2)]))})
    alt0 = gen.to_feet(atmo["altitude"])
    relaxed = {"cMinimumVelocity": 0.0,
               "cMaximumDrop": -round(rng.uniform(300, 2500), 1),
               "cMinimumAltitude": round(alt0 - rng.uniform(300, 2500), 1)}
    rec_step = range_ft / gen.pick(rng, [3, 5, 7.3, 10, 20])
    rng_f = rng_for(seed, "fine_record")                # separate stream: the other draws of a seed stay what they were
    if rng_f.random() < 0.15:
        # record step below (or around) the integration step (half the configured maximum): several record distances are
        # passed within one step and the loop bound range + min(calc_step, record_step) is closer than one step's advance
        rec_step = (step / 2.0) * rng_f.uniform(0.12, 1.3)
    req = {"range": gen.gen_distance_ft(rng, round(range_ft, 2), ("Foot", "Yard", "Meter")),
           "step": gen.gen_distance_ft(rng, round(max(rec_step, 0.5), 3), ("Foot", "Yard", "Meter")),
           "extra": rng.random() < 0.5,
           "time_step": gen.pick(rng, [0.0, 1e-9, 1e-9, round(rng.uniform(0.005, 0.2), 4)])}
    return {"kind": kind, "world": w, "step": step, "relaxed": relaxed, "req": req, "alt0": alt0,
            "gravity": None if rng.random() < 0.8 else -round(rng.uniform(5, 40), 3),
            "n_points": 5 if tier == "quick" else 16, "n_pairs": 4 if tier == "quick" else 10,
            "sweep_seed": seed}


def physical_step_budget(case):
    w = case["world"]
    shot = w["shots"][0]
    v0 = abs(gen.to_fps(w["ammos"][0]["mv"])) + 1.0
    g = abs(case["gravity"] or G)
    elev = math.radians(min(90.0, abs(gen.to_deg(shot["look"])) + abs(gen.to_deg(shot["relative"]))
                            + abs(gen.to_deg(w["weapons"][0]["zero"])) + 1.0))
    v0y = v0 * math.sin(elev)
    h_up = v0y * v0y / (2 * g)
    fall = max(abs(case["relaxed"]["cMaximumDrop"]), case["alt0"] - case["relaxed"]["cMinimumAltitude"]) + 10.0
    t = v0y / g + 4.0 * math.sqrt(2 * (h_up + fall) / g) + 10.0
    wind = max([gen.wind_speed_fps(x) for x in w["winds"]] + [0.0])
    range_ft = gen.to_feet(case["req"]["range"])
    calc_step = case["step"] / 2.0
    v0z = v0 * 0.1
    length = 2 * (range_ft + 2 * calc_step + wind * t) + 2 * (h_up + fall) + 2 * (wind + v0z) * t
    return int(8 * length / calc_step) + 2000


# ---------------------------------------------------------------------------------------------------------------
# child side

EVENTS_PER_STEP_BUDGET = 200_000      # line events in library frames between two integration steps (normal: < 500)


class _Steps:
    """deterministic liveness budgets, no clock: integration steps per call (atmosphere seam) and library line events
    between two consecutive steps (settrace) - the second catches a loop that spins INSIDE one step"""

    def __init__(self):
        self.n = 0
        self.budget = None
        self.since = 0
        self.libdir = lib.LIBDIR

    def hook(self, altitude):
        self.n += 1
        self.since = 0
        if self.budget is not None and self.n > self.budget:
            raise BudgetExceeded("steps")

    def gtrace(self, frame, event, arg):
        if frame.f_code.co_filename.startswith(self.libdir):
            return self.ltrace
        return None

    def ltrace(self, frame, event, arg):
        if event == "line":
            self.since += 1
            if self.since > EVENTS_PER_STEP_BUDGET:
                self.since = 0
                raise BudgetExceeded("events inside one integration step")
        return self.ltrace


def _fire(case, limits, steps, budget):
    """One Calculator.fire with the given limit overrides, on fresh objects.  Returns a plain result dict."""
    pb = lib.pb
    cfg = {"max_calc_step_size_feet": case["step"]}
    if case.get("gravity") is not None:
        cfg["cGravityConstant"] = case["gravity"]
    cfg.update(limits)
    b = Builder(case["world"], shared=True, seam=True)
    shot = b.shot(0)
    calc = pb.Calculator(_config=cfg)
    req = case["req"]
    steps.n = 0
    steps.since = 0
    steps.budget = budget
    out = {"cfg": cfg}
    import sys
    sys.settrace(steps.gtrace)
    try:
        try:
            hit = calc.fire(shot, b.q(req["range"]), b.q(req["step"]), extra_data=req["extra"], time_step=req["time_step"])
        finally:
            sys.settrace(None)
        out["rows"] = drows(hit.trajectory)
        out["exc"] = None
    except pb.RangeError as e:
        d = dexc(e)
        out["rows"] = d["rows"]
        out["exc"] = {"reason": d["reason"], "last_distance": d["last_distance"]}
    except BudgetExceeded as e:
        out["rows"] = []
        out["exc"] = {"budget": True, "what": str(e)}
    except Exception as e:  # neither a result nor a range error
        out["rows"] = []
        out["exc"] = {"other": dexc(e)}
    out["steps"] = steps.n
    return out


# row column indices in drow(): time, distance, velocity, mach, height, ...
T, DIST, VEL, MACH, HEIGHT = 0, 1, 2, 3, 4


def _vals(row):
    """(v fps, y ft, x ft) from a digested row (raw m/s, raw inch)."""
    return unhex(row[VEL]) * FPS_PER_MPS, unhex(row[HEIGHT]) / 12.0, unhex(row[DIST]) / 12.0


def _slack(x):
    return 1e-9 * max(1.0, abs(x))


def check_abort(case, ref, out, limits):
    """Truthfulness predicates (DESIGN section 6, C04).  Returns a list of (invariant id, detail)."""
    bad = []
    vmin = limits.get("cMinimumVelocity", case["relaxed"]["cMinimumVelocity"])
    dmax = limits.get("cMaximumDrop", case["relaxed"]["cMaximumDrop"])
    amin = limits.get("cMinimumAltitude", case["relaxed"]["cMinimumAltitude"])
    alt0 = case["alt0"]
    rows = out["rows"]
    exc = out["exc"]
    if exc and exc.get("budget"):
        if "inside one" in (exc.get("what") or ""):
            return [("liveness.spins_inside_one_step", f"more than {EVENTS_PER_STEP_BUDGET} library line events after integration "
                                                       f"step {out['steps']} without reaching the next one")]
        return [("liveness.step_budget", f"no termination within {out['steps']} integration steps")]
    if exc and exc.get("other"):
        return [("outcome.other_exception", f"neither a trajectory nor a range error: {exc['other']}")]
    if out["steps"] > ref["steps"] + 2:
        bad.append(("liveness.later_than_reference", f"limited run took {out['steps']} steps, reference {ref['steps']}"))
    req_step_ft = gen.to_feet(case["req"]["step"])

    def respects(row, loose_v):
        v, y, x = _vals(row)
        sv = 1e-3 * max(1.0, abs(vmin)) if loose_v else _slack(vmin)
        r = []
        if v < vmin - sv:
            r.append(f"velocity {v} < {vmin}")
        if y < dmax - _slack(dmax):
            r.append(f"drop {y} < {dmax}")
        if alt0 + y < amin - _slack(amin) - _slack(alt0):
            r.append(f"altitude {alt0 + y} < {amin}")
        return r

    def inside_first_step_from_violating_muzzle(row):
        """the one situation in which a row can be beyond a limit although no integration point after the muzzle
        is: the MUZZLE is already beyond that limit, the first integration point is not, and the record row is
        interpolated between the two (limits are tested at integration points)"""
        x = unhex(row[DIST]) / 12.0
        if not rows or x > (case["step"] / 2.0) * (1 + 1e-9):
            return False
        kinds = lambda r: {t.split()[0] for t in r}
        return bool(kinds(respects(rows[0], False)) & kinds(respects(row, interpolated(row))))

    def interpolated(row):
        x = unhex(row[DIST]) / 12.0
        if req_step_ft <= 0:
            return False
        k = x / req_step_ft
        return abs(k - round(k)) < 1e-7

    if exc is None:
        if ref["exc"] is not None:
            bad.append(("abort.missed", "reference run with relaxed limits aborted but the tighter run returned normally"))
        elif rows != ref["rows"]:
            bad.append(("rows.differ_without_abort", "no limit was reported crossed yet rows differ from the reference run"))
        # "returns a trajectory reaching the requested range": the last row is at (or beyond) the last multiple of the
        # record step that lies within the requested range
        if rows:
            range_ft = gen.to_feet(case["req"]["range"])
            if req_step_ft > 0 and range_ft > 0:
                want_last = math.floor(range_ft / req_step_ft + 1e-9) * req_step_ft
                last_x = unhex(rows[-1][DIST]) / 12.0
                if last_x < want_last * (1 - 1e-9) - 1e-9:
                    tail = any(gen.wind_speed_fps(wd) * math.cos(math.radians(gen.to_deg(wd["direction"]))) >= 5.0
                               for wd in case["world"]["winds"])
                    bad.append(("result.stops_short_of_requested_range" + ("|tail" if tail else ""),
                                f"returned normally but the last row is at {last_x!r} ft; the request ({range_ft!r} ft in steps of "
                                f"{req_step_ft!r} ft) reaches {want_last!r} ft"))
        for i, row in enumerate(rows[1:], 1):
            r = respects(row, interpolated(row))
            if r:
                bad.append(("rows.limit_violated_in_returned_trajectory" +
                            ("|first_step" if inside_first_step_from_violating_muzzle(row) else ""), f"row {i}: {r}"))
                break
        return bad
    # ---- RangeError
    reason = exc["reason"]
    if reason not in REASONS.values():
        return [("error.unknown_reason", repr(reason))]
    if not rows:
        return [("error.empty_partial_trajectory", "range error carries no rows")]
    last = rows[-1]
    v, y, x = _vals(last)
    viol_v = v < vmin + _slack(vmin)           # generous: "may be violating"
    viol_d = y < dmax + _slack(dmax)
    viol_a = alt0 + y < amin + _slack(amin) + _slack(alt0)
    clear_v = v < vmin - _slack(vmin)          # strict: "certainly violating"
    clear_d = y < dmax - _slack(dmax)
    if reason == REASONS["v"] and not viol_v:
        bad.append(("error.reason_not_violated", f"reason {reason!r} but last row velocity {v} >= {vmin}"))
    if reason == REASONS["d"]:
        if not viol_d:
            bad.append(("error.reason_not_violated", f"reason {reason!r} but last row height {y} >= {dmax}"))
        if clear_v:
            bad.append(("error.precedence", f"reason {reason!r} although velocity {v} < {vmin} (velocity first)"))
    if reason == REASONS["a"]:
        if not viol_a:
            bad.append(("error.reason_not_violated", f"reason {reason!r} but last row altitude {alt0 + y} >= {amin}"))
        if clear_v or clear_d:
            bad.append(("error.precedence", f"reason {reason!r} although an earlier-precedence limit is violated "
                                            f"(v={v} vmin={vmin} y={y} dmax={dmax})"))
    ld = exc["last_distance"]
    if ld is None or ld[1] != last[DIST]:
        bad.append(("error.last_distance", f"last_distance {ld} != last row distance {last[DIST]}"))
    n = len(rows)
    if len(ref["rows"]) < n - 1 or rows[:n - 1] != ref["rows"][:n - 1]:
        k = next((i for i in range(min(n - 1, len(ref["rows"]))) if rows[i] != ref["rows"][i]), min(n - 1, len(ref["rows"])))
        bad.append(("rows.prefix_differs", f"row {k} of the partial trajectory differs from the unlimited run "
                                           f"(partial has {n} rows, reference {len(ref['rows'])})"))
    for i, row in enumerate(rows[1:-1], 1):
        r = respects(row, interpolated(row))
        if r:
            bad.append(("rows.earlier_row_violates_limit" +
                        ("|first_step" if inside_first_step_from_violating_muzzle(row) else ""), f"row {i} of {n}: {r}"))
            break
    return bad


def _limit_sets(case, ref, rng):
    """Abort points on a seeded stride through the reference rows -> limit overrides."""
    rows = ref["rows"]
    out = []
    if len(rows) < 3:
        return out
    alt0 = case["alt0"]
    idxs = list(range(1, len(rows) - 1))
    stride = max(1, len(idxs) // case["n_points"])
    off = rng.randrange(stride)
    pts = idxs[off::stride][:case["n_points"] + 2]
    singles = {"v": [], "d": [], "a": []}
    for k in pts:
        v0, y0, _ = _vals(rows[k])
        v1, y1, _ = _vals(rows[k + 1])
        if abs(v0 - v1) > 1e-7 * max(1.0, abs(v0)):
            singles["v"].append({"cMinimumVelocity": (v0 + v1) / 2})
        if abs(y0 - y1) > 1e-7 * max(1.0, abs(y0)):
            singles["d"].append({"cMaximumDrop": (y0 + y1) / 2})
            singles["a"].append({"cMinimumAltitude": alt0 + (y0 + y1) / 2})
    for kind in ("v", "d", "a"):
        for s in singles[kind]:
            out.append((kind + "@row", s))
    # pairs / triples (precedence): same abort point and different ones
    for _ in range(case["n_pairs"]):
        kinds = rng.sample(["v", "d", "a"], rng.choice([2, 2, 3]))
        if any(not singles[k] for k in kinds):
            continue
        same = rng.random() < 0.6
        i = rng.randrange(min(len(singles[k]) for k in kinds))
        lim = {}
        for k in kinds:
            lim.update(singles[k][i if same else rng.randrange(len(singles[k]))])
        out.append(("+".join(kinds), lim))
    # the documented defaults as one more configuration
    out.append(("defaults", {"cMinimumVelocity": 50.0, "cMaximumDrop": max(-15000.0, case["relaxed"]["cMaximumDrop"]),
                             "cMinimumAltitude": max(-1410.748, case["relaxed"]["cMinimumAltitude"])}))
    return out


def _sweep(case, only_limits=None):
    steps = _Steps()
    lib.set_step_hook(steps.hook)
    budget = physical_step_budget(case)
    ref = _fire(case, case["relaxed"], steps, budget)
    res = {"violations": [], "aborts": {"v": 0, "d": 0, "a": 0}, "multi": 0, "runs": 0, "steps": ref["steps"],
           "ref_rows": len(ref["rows"]), "ref_exc": ref["exc"], "budget": budget, "abort_keys": [], "completed": 0,
           "max_budget_ratio": ref["steps"] / budget}
    h = [sha(ref["rows"]), ref["exc"]]
    if ref["exc"] and (ref["exc"].get("budget") or ref["exc"].get("other")):
        for inv, detail in check_abort(case, ref, ref, case["relaxed"]):
            res["violations"].append({"sig": {"invariant": inv, "mode": "reference", "launch": case["kind"]},
                                      "detail": detail, "replay": {"case": case, "limits": None}})
        res["digest"] = sha(h)
        return res
    # the reference run itself is also an abort run when it ended in a range error
    bad = check_abort(case, ref, ref, case["relaxed"]) if ref["exc"] else []
    for inv, detail in bad:
        res["violations"].append({"sig": {"invariant": inv, "mode": "reference", "launch": case["kind"]},
                                  "detail": detail, "replay": {"case": case, "limits": None}})
    rng = rng_for(case["sweep_seed"], "sweep")
    sets = [("replay", only_limits)] if only_limits is not None else _limit_sets(case, ref, rng)
    for label, lim in sets:
        out = _fire(case, dict(case["relaxed"], **lim), steps, ref["steps"] + 1000)
        res["runs"] += 1
        res["steps"] += out["steps"]
        h.append([label, sorted(lim.items()), sha(out["rows"]), out["exc"]])
        if out["exc"] and out["exc"].get("reason"):
            k = {v: k for k, v in REASONS.items()}.get(out["exc"]["reason"])
            if k:
                res["aborts"][k] += 1
            lastv, lasty, _ = _vals(out["rows"][-1]) if out["rows"] else (0, 0, 0)
            full = dict(case["relaxed"], **lim)
            nviol = (lastv < full["cMinimumVelocity"]) + (lasty < full["cMaximumDrop"]) + \
                    (case["alt0"] + lasty < full["cMinimumAltitude"])
            if nviol >= 2:
                res["multi"] += 1
            res["abort_keys"].append(sha([out["exc"]["reason"], len(out["rows"]), out["rows"][-1] if out["rows"] else 0])[:16])
        elif out["exc"] is None:
            res["completed"] += 1
        for inv, detail in check_abort(case, ref, out, lim):
            res["violations"].append({"sig": {"invariant": inv, "mode": label if label != "replay" else "sweep",
                                              "launch": case["kind"]},
                                      "detail": detail + f" | limits={lim}", "replay": {"case": case, "limits": lim}})
    # ---- the stretch between the last recorded row and the requested range: no row of the reference run lies there,
    # so no abort point of the sweep above does either.  Every integration point of the same shot is made visible by a second
    # reference run (tiny time step + extra data: recording does not influence integration); a limit set midway between
    # two consecutive integration points that both lie before the requested range is violated before the range is
    # reached, so the original request must end in a range error, not in a normal return
    if only_limits is None and not ref["exc"] and len(ref["rows"]) >= 2 and ref["steps"] <= 60000:
        range_ft = gen.to_feet(case["req"]["range"])
        x_last = _vals(ref["rows"][-1])[2]
        if 0 < x_last < range_ft * (1 - 1e-6) - 1e-6:
            case_all = dict(case, req=dict(case["req"], extra=True, time_step=1e-9))
            ref_all = _fire(case_all, case["relaxed"], steps, budget)
            res["steps"] += ref_all["steps"]
            pts = [r for r in ref_all["rows"] if x_last < _vals(r)[2] <= range_ft * (1 - 1e-9)] if not ref_all["exc"] else []
            if len(pts) >= 2:
                k = len(pts) // 2 - 1
                (va, ya, _), (vb, yb, _) = _vals(pts[k]), _vals(pts[k + 1])
                probes = []
                if vb < va * (1 - 1e-9) and vb > 0:
                    probes.append(("tail.v", {"cMinimumVelocity": (va + vb) / 2}))
                if yb < ya - 1e-9 * max(1.0, abs(ya)):
                    probes.append(("tail.d", {"cMaximumDrop": (ya + yb) / 2}))
                    probes.append(("tail.a", {"cMinimumAltitude": case["alt0"] + (ya + yb) / 2}))
                for label, lim in probes:
                    # an earlier point may violate the limit too (non-monotone flight): then the abort simply comes earlier
                    out = _fire(case, dict(case["relaxed"], **lim), steps, ref["steps"] + 1000)
                    res["runs"] += 1
                    res["steps"] += out["steps"]
                    res["tail_probes"] = res.get("tail_probes", 0) + 1
                    h.append([label, sorted(lim.items()), sha(out["rows"]), out["exc"]])
                    if out["exc"] is None:
                        res["violations"].append({"sig": {"invariant": "abort.missed_in_unrecorded_tail", "mode": "sweep",
                                                          "launch": case["kind"]},
                                                  "detail": f"a limit violated at an integration point between the last recorded "
                                                            f"row ({x_last!r} ft) and the requested range ({range_ft!r} ft) was not "
                                                            f"reported: the call returned normally | limits={lim}",
                                                  "replay": {"case": case, "limits": lim, "whole_case": True}})
                    else:
                        for inv, detail in check_abort(case, ref, out, lim):
                            res["violations"].append({"sig": {"invariant": inv, "mode": "sweep", "launch": case["kind"]},
                                                      "detail": detail + f" | limits={lim}",
                                                      "replay": {"case": case, "limits": lim}})

    # ---- the same truthfulness for range errors that come out of ZEROING (trajectory computations too; their partial
    # trajectory has a single row): stated reason violated by the last row, last_distance = that row's distance
    if only_limits is None and len(ref["rows"]) >= 3 and not ref["exc"]:
        pb = lib.pb
        v0, _, _ = _vals(ref["rows"][0])
        v1, _, _ = _vals(ref["rows"][-1])
        if v0 - v1 > 2.0:
            lim = {"cMinimumVelocity": (v0 + v1) / 2}
            cfg = {"max_calc_step_size_feet": case["step"]}
            if case.get("gravity") is not None:
                cfg["cGravityConstant"] = case["gravity"]
            cfg.update(case["relaxed"])
            cfg.update(lim)
            b = Builder(case["world"], shared=True, seam=True)
            steps.n, steps.since, steps.budget = 0, 0, 40 * (ref["steps"] + 1000)
            try:
                pb.Calculator(_config=cfg).set_weapon_zero(b.shot(0), b.q(case["req"]["range"]))
                h.append(["zero", "returned"])
            except pb.RangeError as e:
                res["runs"] += 1
                d = dexc(e)
                h.append(["zero", d["reason"], len(d["rows"])])
                zb = []
                if not d["rows"]:
                    zb.append(("error.empty_partial_trajectory", "range error out of zeroing carries no rows"))
                else:
                    lv, ly, _ = _vals(d["rows"][-1])
                    if d["reason"] == REASONS["v"] and not lv < lim["cMinimumVelocity"] * (1 + 1e-9):
                        zb.append(("error.reason_not_violated", f"zeroing: reason {d['reason']!r} but last row velocity {lv}"))
                    if d["last_distance"] is None or d["last_distance"][1] != d["rows"][-1][DIST]:
                        zb.append(("error.last_distance", f"zeroing: last_distance {d['last_distance']} != last row distance "
                                                          f"{d['rows'][-1][DIST]} ({len(d['rows'])} row(s))"))
                for inv, detail in zb:
                    res["violations"].append({"sig": {"invariant": inv, "mode": "zeroing", "launch": case["kind"]},
                                              "detail": detail + f" | limits={lim}",
                                              "replay": {"case": case, "limits": None, "whole_case": True}})
            except BudgetExceeded:
                res["violations"].append({"sig": {"invariant": "liveness.step_budget", "mode": "zeroing", "launch": case["kind"]},
                                          "detail": "zeroing under a velocity limit did not end within its step budget",
                                          "replay": {"case": case, "limits": None, "whole_case": True}})
            except Exception:  # noqa: ZeroFindingError etc. are C02's business
                h.append(["zero", "other"])
    res["digest"] = sha(h)
    return res


def _normalise_sig(v):
    # the mode label of a replayed single configuration is 'sweep'; original labels collapse to the same class
    s = dict(v["sig"])
    if s.get("invariant", "").endswith("|tail"):
        s["invariant"] = s["invariant"][:-len("|tail")]
        s["tail_wind_component"] = True
    if s.get("invariant", "").endswith("|first_step"):
        s["invariant"] = s["invariant"][:-len("|first_step")]
        s["row_inside_first_step_from_violating_muzzle"] = True
    if s.get("mode") not in ("reference", "zeroing"):
        s["mode"] = "sweep"
    v["sig"] = s
    return v


def run_case(seed, tier, idx):
    case = gen_case(seed, tier)
    res = run_in_fork(_sweep, (case,), timeout=600)
    res["violations"] = [_normalise_sig(v) for v in res["violations"]]
    res["nontrivial"] = (sum(res["aborts"].values()) > 0)
    res["sample"] = {"seed": seed, "launch": case["kind"], "step_ft": case["step"], "request": case["req"],
                     "relaxed_limits": case["relaxed"], "reference_rows": res["ref_rows"],
                     "limit_configurations_run": res["runs"], "aborts_by_reason": res["aborts"]}
    res["kind"] = case["kind"]
    return res


def replay_case(rep):
    case = rep["case"]
    res = run_in_fork(_sweep, (case, None if rep.get("whole_case") else (rep.get("limits") or {})), timeout=600)
    res["violations"] = [_normalise_sig(v) for v in res["violations"]]
    return res


def minimise(rep):
    """Shrink the case while the same signature persists: drop winds, cant, relative angle, gravity override."""
    want = rep["violation"]["sig"]

    def fails(r):
        out = _sweep(r["case"], None if r.get("whole_case") else (r.get("limits") or {}))
        return any(_normalise_sig(v)["sig"] == want for v in out["violations"])

    import copy
    cur = rep
    for edit in ("winds", "cant", "relative", "gravity", "extra", "time_step"):
        cand = copy.deepcopy(cur)
        c = cand["case"]
        if edit == "winds":
            c["world"]["shots"][0]["winds"] = None
        elif edit == "cant":
            c["world"]["shots"][0]["cant"] = [0.0, "Degree"]
        elif edit == "relative":
            c["world"]["shots"][0]["relative"] = [0.0, "Degree"]
        elif edit == "gravity":
            c["gravity"] = None
        elif edit == "extra":
            c["req"]["extra"] = False
        elif edit == "time_step":
            c["req"]["time_step"] = 0.0
        try:
            if fails(cand):
                cur = cand
        except Exception:
            pass
    return cur


def summarise(records):
    keys = set()
    aborts = {"v": 0, "d": 0, "a": 0}
    kinds = {}
    runs = steps = multi = completed = 0
    maxratio = 0.0
    for r in records:
        keys.update(r.get("abort_keys", []))
        for k in aborts:
            aborts[k] += r["aborts"][k]
        kinds[r["kind"]] = kinds.get(r["kind"], 0) + 1
        runs += r["runs"] + 1
        steps += r["steps"]
        multi += r["multi"]
        completed += r["completed"]
        maxratio = max(maxratio, r.get("max_budget_ratio", 0.0))
    return {
        "evaluations": runs,
        "distinct_nontrivial": len(keys),
        "rule": "one evaluation = one Calculator.fire under one limit configuration (reference runs included); a case "
                "is non-trivial when the library's abort actually fired (RangeError raised); distinct = distinct "
                "(reason, number of rows, terminal row) digests",
        "shots": len(records),
        "fault_kinds_fired": {"lib_abort.minimum_velocity": aborts["v"], "lib_abort.maximum_drop": aborts["d"],
                              "lib_abort.minimum_altitude": aborts["a"], "lib_abort.two_or_more_limits_at_once": multi},
        "limited_runs_that_completed_normally": completed,
        "abort_points_between_last_recorded_row_and_requested_range": sum(r.get("tail_probes", 0) for r in records),
        "launch_kinds": kinds,
        "integration_steps_simulated": steps,
        "max_reference_steps_over_budget": round(maxratio, 4),
        "simulated_time_note": "the library has no clock; logical time is integration steps (above)",
    }
