"""C10 - results depend only on the arguments: deterministic, isolated, non-mutating (flagship).

1-4 client tasks, each owning long-used calculators, share read-only pool objects under hostile but legal aliasing and
run zero / elev / fire / danger-space / constructor / calibration operations (many designed to raise) under a seeded
scheduler with injected interrupts and environment perturbations.  Oracles: (O1) every completed operation equals the
same operation executed solo on fresh objects in a pristine process; (O2) snapshots - nothing changes except what an
operation's contract allows."""
from pbsim import gen, simgen
from pbsim.simprop import (minimise_spec, record, replay_spec, run_spec, summarise_sim, sweep_depth1,
                           sweep_interrupts)
from pbsim.util import rng_for
from pbsim.world import empty_world

ID = "C10"
LEVEL = "exploration"
STUBS = ("the scheduler (baton threads + settrace/atmosphere-seam pre-emption), injected interrupts, the perturbing "
         "admin task (debug flag, failing log sink, warning filters); atmospheres in the simulated run are subclasses of "
         "the real Atmo/Vacuum that report each integration step and delegate (the solo oracle uses the plain classes)")
ASSUMPTIONS = [
    "seeded sampling of worlds, programs, schedules and faults: a clean batch is evidence, not proof",
    "pre-emption at line granularity in library frames (opcode granularity inside the touch set in ~30% of traced "
    "runs); the integration loop is pre-empted per step through the atmosphere seam in cold/step modes",
    "both sides of the oracle run the code under test: a defect that is a pure function of the arguments is invisible "
    "here by design (that is what the thirteen not-applicable properties are about)",
    "os.fork copy-on-write isolation for the solo oracle; CPython 3.12 trace semantics; float determinism",
    "calculators and the objects an operation is meant to mutate are owned by one task (the property's quantifier); "
    "everything else may be shared",
]


def plan(tier):
    return {"runs": 480} if tier == "quick" else {"runs": 30000, "budget": 1200.0}


def gen_spec(seed, tier):
    rng = rng_for(seed, "program")
    ntasks = gen.pick(rng, [1, 2, 2, 3] if tier == "quick" else [1, 2, 2, 3, 3, 4])
    w = empty_world()
    simgen.gen_pool(rng, w)
    programs = []
    roles = {}
    for t in range(ntasks):
        weapons = []
        for _ in range(rng.randint(1, 2)):
            w["weapons"].append(simgen.gen_weapon(rng))
            weapons.append(len(w["weapons"]) - 1)
        if len(weapons) == 2 and rng.random() < 0.35:
            # a cloned profile: both weapons were given the SAME Angular instance as their zero elevation
            w["qpool"].append(gen.gen_angle_deg(rng, round(rng.uniform(0.0, 0.3), 4)))
            for wid in weapons:
                w["weapons"][wid]["zero"] = {"ref": len(w["qpool"]) - 1}
        shots = []
        for _ in range(rng.randint(1, 3)):
            w["shots"].append(simgen.gen_shot(rng, w, gen.pick(rng, weapons)))
            shots.append(len(w["shots"]) - 1)
        calcs = []
        raising = {}
        for _ in range(rng.randint(1, 2)):
            r = gen.pick(rng, [None, None, None, "velocity", "drop", "iterations", "altitude"])
            w["calcs"].append({"config": simgen.gen_calc_config(rng, raising=r)})
            calcs.append(len(w["calcs"]) - 1)
            if r:
                raising[calcs[-1]] = r
        n_ops = rng.randint(3, 7) if tier == "quick" else rng.randint(3, 12)
        programs.append(simgen.gen_client_program(rng, w, t, calcs, shots, n_ops, raising))
        roles[str(t)] = "client"
    cfg = simgen.gen_engine_config(rng, tier, ntasks)
    simgen.tame_for_line_mode(programs, cfg)
    if rng.random() < 0.3:
        programs.append(simgen.gen_admin_perturb_program(rng, rng.randint(2, 6)))
        roles[str(len(programs) - 1)] = "admin"
    frng = rng_for(seed, "faults")
    faults = []
    if frng.random() > 1 / 3:
        faults = simgen.gen_interrupts(frng, programs, roles, cfg["mode"], 2 if tier == "quick" else 3)
    return {"seed": seed, "world": w, "programs": programs, "roles": roles, "config": cfg, "faults": faults}


def gen_churn(seed, tier):
    """object churn on ONE long-used calculator: a couple of hundred computations, each on freshly built, immediately
    discarded objects whose drag tables have the same length and different contents - the history in which anything
    remembered by object identity (addresses are recycled) or by a weak summary goes stale"""
    rng = rng_for(seed, "program")
    w = empty_world()
    w["calcs"].append({"config": {"max_calc_step_size_feet": gen.pick(rng, [4.0, 8.0])}})
    family = {"kind": "derived", "name": gen.pick(rng, gen.SHIPPED_TABLES), "stride": rng.randint(1, 3), "offset": rng.randint(0, 2)}
    prog = [{"op": "new_calc", "calc": 0}]
    import copy
    import random as _random
    r2 = _random.Random(repr(rng.getstate()[1][:6]) + "again")          # side stream: the other draws of a seed stay as they were
    for _ in range(rng.randint(150, 260)):
        prog.append(simgen.gen_fire_tmp(rng, 0, family))
        if len(prog) > 3 and r2.random() < 0.2:
            # an EARLIER computation again (same contents, newly built objects), any number of other tables in between:
            # whatever is remembered per table contents and evicted / overwritten in between must not come back wrong
            prog.append(copy.deepcopy(prog[r2.randint(1, len(prog) - 1)]))
    return {"seed": seed, "world": w, "programs": [prog], "roles": {"0": "client"}, "faults": [],
            "config": {"mode": "none", "policy": "serial", "mean_run": 1000, "opcode": False}}


def accept(v, spec, hist):
    """Narrow relaxation (DESIGN 4.5): an operation that ran WHILE the user (admin task) was changing the warnings filter
    may or may not fail with the RuntimeWarning the library itself issues.  Outside such overlaps the solo oracle runs
    under the user's setting and the results must agree."""
    if v["sig"].get("invariant") == "O1.digest" and "RuntimeWarning" in v["detail"]:
        try:
            return bool(hist["filter_unstable"][v["task"]][v["op_index"]])   # only while the user was changing it
        except Exception:  # noqa
            return False
    return False


def run_case(seed, tier, idx):
    if rng_for(seed, "churn").random() < 0.025:
        spec = gen_churn(seed, tier)
        hist, viol, stats = run_spec(spec, accept)
        rec = record(spec, hist, viol, stats)
        rec["nontrivial"] = True
        rec["churn"] = len(spec["programs"][0])
        return rec
    spec = gen_spec(seed, tier)
    r = rng_for(seed, "sweep").random()
    p_int, p_d1, n = (0.2, 0.15, 24) if tier == "thorough" else (0.04, 0.04, 8)
    if r < p_int:
        return sweep_interrupts(spec, accept, n)
    if r < p_int + p_d1:
        clients = [i for i, p in enumerate(spec["programs"]) if spec["roles"].get(str(i)) == "client"]
        if len(clients) >= 2:
            rec = sweep_depth1(spec, accept, n)
            if rec is not None:
                return rec
    hist, viol, stats = run_spec(spec, accept)
    return record(spec, hist, viol, stats)


def replay_case(rep):
    return replay_spec(rep, accept)


def minimise(rep):
    return minimise_spec(rep, accept)


def summarise(records):
    cov = summarise_sim(records, "Churn runs (one calculator, 150-260 computations on throw-away objects) count as non-trivial.")
    cov["object_churn_runs"] = sum(1 for r in records if r.get("churn"))
    cov["object_churn_operations"] = sum(r.get("churn", 0) for r in records)
    return cov
