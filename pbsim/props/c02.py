"""C02 - zeroing (claimed PARTIALLY: failure semantics, see DESIGN section 6).

Decided here:
  1. error instead of angle - iteration-cap abort sweep (fault kind lib_abort.iteration_cap) and limit aborts inside
     the zero finder (lib_abort.limit): a call either raises or returns the converged answer, never anything else;
  2. a failed or interrupted attempt leaves the stored zero untouched (interrupt: old value or the complete answer);
     barrel_elevation_for_target never changes it;
  3. the returned elevation is independent of history and schedule (zero -> fire -> failed zero -> zero chains on
     long-used calculators, interleaved with other tasks) - solo oracle (O1).
NOT decided: that the returned elevation hits the aim point, and that zeroing succeeds for reachable targets (pure
functions of the arguments)."""
import copy

from pbsim import gen, lib, simgen
from pbsim.digest import dexc, dq, drows
from pbsim.forkrun import run_in_fork
from pbsim.simprop import minimise_spec, record, replay_spec, run_spec, summarise_sim, sweep_interrupts
from pbsim.util import rng_for, sha
from pbsim.world import Builder, empty_world

ID = "C02"
LEVEL = "fault_enumeration"
STUBS = ("sweep driver and scheduler; injected interrupts; atmospheres in simulated runs are step-seam subclasses of "
         "the real Atmo/Vacuum")
ASSUMPTIONS = [
    "PARTIAL claim: only the failure-semantics clauses of C02 are decided; hit accuracy and never-fails-for-reachable-"
    "targets are pure functions of (shot, distance) and are not evaluated by any check here",
    "iteration caps 0..12 are enumerated for every sampled zeroing problem, at the problem's own accuracy setting "
    "(a looser accuracy legitimately returns a different angle, so accuracy is not swept)",
    "interrupt positions are sampled in the quick tier and swept on a stride over one operation's events in the "
    "thorough tier; zeroing problems are sampled",
    "bit-exact comparison of returned and stored elevations",
]
CAPS = list(range(0, 13))


def plan(tier):
    return {"runs": 240} if tier == "quick" else {"runs": 30000, "budget": 1200.0}


# ---------------------------------------------------------------------------------------------------------------
# mode A: cap / limit abort sweep (no scheduler)

def gen_sweep(seed, tier):
    rng = rng_for(seed, "program")
    w = empty_world()
    w["tables"].append(gen.gen_table(rng, 0.15))
    w["dms"].append(gen.gen_dm(rng, 0, mbc_p=0.15))
    w["ammos"].append({"dm": 0, "mv": gen.gen_velocity_fps(rng, round(rng.uniform(900, 3300), 1))})
    w["weapons"].append({"sight_height": [round(rng.uniform(-1, 4), 2), "Inch"], "twist": [gen.pick(rng, [0, 9, 12, -10]), "Inch"],
                         "zero": gen.gen_angle_deg(rng, gen.pick(rng, [0.0, round(rng.uniform(-0.3, 0.8), 4)]))})
    w["atmos"].append(gen.gen_atmo(rng, 9000))
    nw = gen.pick(rng, [0, 0, 1, 2])
    for i in range(nw):
        w["winds"].append(gen.gen_wind(rng, 40.0, None if i == nw - 1 else round(rng.uniform(100, 900), 1)))
    w["windlists"].append(list(range(nw)))
    look = gen.pick(rng, [0.0, 0.0, round(rng.uniform(-5, 5), 3), round(rng.uniform(-25, 25), 2), round(rng.uniform(-45, 45), 1)])
    w["shots"].append({"weapon": 0, "ammo": 0, "atmo": 0, "winds": 0 if nw else None,
                       "look": gen.gen_angle_deg(rng, look), "relative": gen.gen_angle_deg(rng, gen.pick(rng, [0.0, 0.0, 0.3])),
                       "cant": gen.gen_angle_deg(rng, gen.pick(rng, [0.0, 0.0, 0.0, round(rng.uniform(-15, 15), 1)]))})
    cfg = {"max_calc_step_size_feet": gen.pick(rng, [1.0, 2.0, 4.0, 8.0]),
           "cZeroFindingAccuracy": gen.pick(rng, [5e-6, 5e-6, 1e-4, 1e-3, 1e-7, 1e-7, 0.0])}   # 0: can never be met
    if rng.random() < 0.15:
        cfg["cGravityConstant"] = -round(rng.uniform(20, 40), 3)
    dist = gen.gen_distance_ft(rng, round(rng.uniform(25, 700) * 3, 1), ("Yard", "Meter", "Foot"))
    if rng.random() < 0.1:
        dist = gen.gen_distance_ft(rng, round(rng.uniform(3000, 9000) * 3, 1), ("Yard", "Meter"))   # likely out of reach
        cfg["max_calc_step_size_feet"] = 16.0
    return {"seed": seed, "mode2": "sweep", "world": w, "cfg": cfg, "dist": dist}


class _ZeroBudget(BaseException):
    pass


_budget = {"n": 0, "max": 3_000_000}


def _count_step(altitude):
    _budget["n"] += 1
    if _budget["n"] > _budget["max"]:
        raise _ZeroBudget()


def _zero_once(case, cfg, how="zero"):
    pb = lib.pb
    _budget["n"] = 0
    lib.set_step_hook(_count_step)          # deterministic liveness budget: integration steps per zeroing call
    b = Builder(case["world"], shared=True, seam=True)
    shot = b.shot(0)
    pre = float(shot.weapon.zero_elevation.raw_value).hex()
    calc = pb.Calculator(_config=dict(cfg))
    out = {}
    try:
        if how == "zero":
            r = calc.set_weapon_zero(shot, b.q(case["dist"]))
        else:
            r = calc.barrel_elevation_for_target(shot, b.q(case["dist"]))
        out["kind"] = "ok"
        out["value"] = float(r.raw_value).hex()
    except pb.ZeroFindingError as e:
        out["kind"] = "ZeroFindingError"
        out["error"] = e.zero_finding_error
        out["iterations"] = e.iterations_count
    except pb.RangeError as e:
        out["kind"] = "RangeError"
        out["reason"] = e.reason
    except _ZeroBudget:
        out["kind"] = "budget"
    except Exception as e:  # noqa
        out["kind"] = "other:" + type(e).__name__
    out["pre"] = pre
    out["post"] = float(shot.weapon.zero_elevation.raw_value).hex()
    return out, shot, calc, b


def _sweep(case, only=None):
    pb = lib.pb
    lib.reset_globals()
    lib.set_step_hook(None)
    viol = []
    stats = {"cap_runs": 0, "cap_errors": 0, "cap_returns": 0, "limit_runs": 0, "limit_errors": 0, "elev_runs": 0}

    def bad(inv, where, detail, rep):
        viol.append({"sig": {"invariant": inv, "mode": "sweep", "where": where}, "detail": detail,
                     "replay": {"case": case, "only": rep}})

    base = dict(case["cfg"])
    ref, shot, calc, b = _zero_once(case, dict(base, cMaxIterations=200))
    if ref["kind"] == "budget":
        bad("liveness.step_budget", "reference", f"zeroing did not end within {_budget['max']} integration steps", ["ref"])
        return {"violations": viol, "stats": stats, "digest": sha(["budget"]), "ref_kind": "budget"}
    h = [ref["kind"], ref.get("value")]
    acc = base.get("cZeroFindingAccuracy", 5e-6)
    if ref["kind"] == "ok" and all(float(getattr(shot, a).raw_value) == 0.0 for a in ("look_angle", "cant_angle", "relative_angle")):
        # A returned angle met the accuracy by the finder's own last measurement, so asking again from exactly that angle
        # (level, un-canted: the start elevation is the stored zero, bit for bit) with one iteration allowed measures the
        # same error and hands the angle back unchanged.  An angle that was returned without having been tested does not.
        stats["retest_runs"] = stats.get("retest_runs", 0) + 1
        _budget["n"] = 0
        try:
            again = pb.Calculator(_config=dict(base, cMaxIterations=1)).barrel_elevation_for_target(shot, b.q(case["dist"]))
            again = "ok:" + float(again.raw_value).hex()
        except _ZeroBudget:
            again = "budget"
        except Exception as e:  # noqa
            again = type(e).__name__
        h.append(["retest", again])
        if again != "ok:" + ref["value"]:
            bad("accuracy.returned_angle_fails_own_test", "reference",
                f"zeroing (accuracy {acc}) returned {ref['value']}, but started again from exactly that angle with one "
                f"iteration allowed it gives {again}: the returned angle had not met the accuracy", ["ref"])
    if ref["kind"] == "ok" and ref["post"] != ref["value"]:
        bad("zero.stored_differs_from_returned", "reference", f"returned {ref['value']} stored {ref['post']}", ["ref"])
    if ref["kind"] != "ok" and ref["post"] != ref["pre"]:
        bad("zero.failed_attempt_changed_stored_zero", "reference",
            f"{ref['kind']} but stored zero {ref['pre']} -> {ref['post']}", ["ref"])
    if ref["kind"] == "ZeroFindingError" and not ref["error"] > acc:
        bad("error.untruthful_payload", "reference", f"ZeroFindingError reports error {ref['error']} <= accuracy {acc}", ["ref"])
    # ---- 1. iteration-cap abort sweep
    caps = CAPS if only is None else [c for c in only if isinstance(c, int)]
    errs = {}              # cap k -> miss after k iterations (known whenever the capped call raised ZeroFindingError)
    windows = 0
    for k in caps:
        out, _, _, _ = _zero_once(case, dict(base, cMaxIterations=k))
        if out["kind"] == "ZeroFindingError" and out.get("iterations") == k and k >= 1 and only is None:
            errs[k] = out["error"]
            acc_w = out["error"] / 1.5
            # the abort aimed at the window (accuracy, 2 x accuracy]: the iterations of a search do not depend on the accuracy
            # (only its stopping does), so with accuracy e_k / 1.5 - below every miss e_1 .. e_k seen so far - and the same
            # cap k the search again ends on the cap with miss e_k > accuracy, and must raise
            if windows < 2 and acc_w > 0 and all(j in errs and errs[j] > acc_w for j in range(1, k + 1)):
                windows += 1
                outw, _, _, _ = _zero_once(case, dict(base, cMaxIterations=k, cZeroFindingAccuracy=acc_w))
                stats["cap_runs"] += 1
                stats["window_runs"] = stats.get("window_runs", 0) + 1
                h.append(["window", k, outw["kind"], outw.get("value")])
                if outw["kind"] == "ok":
                    bad("cap.unconverged_angle_returned", "window",
                        f"cap {k} with accuracy {acc_w!r}: after {k} iterations the miss is {out['error']!r} (> accuracy), yet an "
                        f"angle was returned", None)
        stats["cap_runs"] += 1
        h.append([k, out["kind"], out.get("value")])
        if out["kind"] == "ok":
            stats["cap_returns"] += 1
            if ref["kind"] != "ok":
                bad("cap.angle_although_unconverged", "cap", f"cap {k} returned {out['value']} but the finder does not "
                                                             f"converge within 200 iterations ({ref['kind']})", [k])
            elif out["value"] != ref["value"]:
                bad("cap.unconverged_angle_returned", "cap", f"cap {k} returned {out['value']}, converged answer is "
                                                             f"{ref['value']}", [k])
            if out["post"] != out["value"]:
                bad("zero.stored_differs_from_returned", "cap", f"cap {k}: returned {out['value']} stored {out['post']}", [k])
        else:
            stats["cap_errors"] += 1
            if out["post"] != out["pre"]:
                bad("zero.failed_attempt_changed_stored_zero", "cap",
                    f"cap {k}: {out['kind']} but stored zero {out['pre']} -> {out['post']}", [k])
            if out["kind"] == "ZeroFindingError":
                if not out["error"] > acc:
                    bad("error.untruthful_payload", "cap", f"cap {k}: error {out['error']} <= accuracy {acc}", [k])
                if out["iterations"] > k:
                    bad("error.untruthful_payload", "cap", f"cap {k}: reports {out['iterations']} iterations", [k])
            elif out["kind"] == "budget":
                bad("liveness.step_budget", "cap", f"cap {k}: zeroing did not end within its step budget", [k])
            elif out["kind"].startswith("other"):
                bad("outcome.other_exception", "cap", f"cap {k}: {out['kind']}", [k])
            elif out["kind"] == "RangeError" and ref["kind"] == "ok":
                bad("cap.range_error_only_under_cap", "cap", f"cap {k}: RangeError although the uncapped call converges", [k])
    # ---- 2. barrel_elevation_for_target: same answer, stored zero untouched
    if only is None or "elev" in only:
        out, _, _, _ = _zero_once(case, dict(base, cMaxIterations=200), how="elev")
        stats["elev_runs"] += 1
        h.append(["elev", out["kind"], out.get("value")])
        if out["post"] != out["pre"]:
            bad("zero.changed_by_non_zero_op", "elev", f"barrel_elevation_for_target changed the stored zero "
                                                       f"{out['pre']} -> {out['post']}", ["elev"])
        if out["kind"] != ref["kind"] or out.get("value") != ref.get("value"):
            bad("elev.differs_from_zero", "elev", f"barrel_elevation_for_target {out['kind']}:{out.get('value')} vs "
                                                  f"set_weapon_zero {ref['kind']}:{ref.get('value')}", ["elev"])
    # ---- 3. limits that abort the trajectory before the zero distance must surface as an error
    if ref["kind"] == "ok" and (only is None or "limit" in only):
        # velocity and height at the zero distance with the found zero (shot.weapon now holds it)
        try:
            hit = calc.fire(shot, b.q(case["dist"]), b.q(case["dist"]))
            row = hit.trajectory[-1]
            v_end = row.velocity >> pb.Unit.FPS
            v0 = hit.trajectory[0].velocity >> pb.Unit.FPS
            ys = [r.height >> pb.Unit.Foot for r in hit.trajectory]
        except Exception:  # noqa
            v_end = None
        if v_end is not None and v0 - v_end > 1.0:
            lims = [("velocity", {"cMinimumVelocity": (v0 + v_end) / 2})]
            alt0 = gen.to_feet(case["world"]["atmos"][0]["altitude"])
            lo = min(ys)
            if lo < -0.5:
                lims.append(("drop", {"cMaximumDrop": lo / 2}))
                lims.append(("altitude", {"cMinimumAltitude": alt0 + lo / 2}))
            for name, lim in lims:
                out, _, _, _ = _zero_once(case, dict(base, cMaxIterations=200, **lim))
                stats["limit_runs"] += 1
                h.append([name, out["kind"], out.get("value")])
                if out["kind"] == "ok":
                    bad("limit.abort_not_surfaced", "limit", f"{name} limit {lim} is crossed before the zero distance "
                                                             f"yet zeroing returned {out['value']}", ["limit"])
                else:
                    stats["limit_errors"] += 1
                    if out["post"] != out["pre"]:
                        bad("zero.failed_attempt_changed_stored_zero", "limit",
                            f"{name}: {out['kind']} but stored zero {out['pre']} -> {out['post']}", ["limit"])
    return {"violations": viol, "stats": stats, "digest": sha(h), "ref_kind": ref["kind"]}


# ---------------------------------------------------------------------------------------------------------------
# mode B: histories + interrupts under the scheduler

def gen_history(seed, tier):
    rng = rng_for(seed, "program")
    ntasks = gen.pick(rng, [1, 1, 2] if tier == "quick" else [1, 2, 2, 3])
    w = empty_world()
    simgen.gen_pool(rng, w, n_tables=(1, 3), n_dms=(1, 3), n_ammos=(1, 3), n_atmos=(2, 3), n_winds=(0, 3))
    programs, roles = [], {}
    for t in range(ntasks):
        w["weapons"].append(simgen.gen_weapon(rng))
        wid = len(w["weapons"]) - 1
        shots = []
        for _ in range(rng.randint(2, 3)):        # same weapon, changing look angle / atmosphere / winds
            w["shots"].append(simgen.gen_shot(rng, w, wid, steep_p=0.3))
            shots.append(len(w["shots"]) - 1)
        good = len(w["calcs"])
        w["calcs"].append({"config": simgen.gen_calc_config(rng, allow_default_step=False)})
        badc = len(w["calcs"])
        w["calcs"].append({"config": simgen.gen_calc_config(rng, raising=gen.pick(rng, ["iterations", "velocity", "drop"]),
                                                          allow_default_step=False)})
        prog = [{"op": "new_calc", "calc": good}, {"op": "new_calc", "calc": badc}]
        for _ in range(rng.randint(4, 9)):
            r = rng.random()
            s = gen.pick(rng, shots)
            prev = [o for o in prog if o.get("op") in ("zero", "elev")]
            if prev and rng.random() < 0.25:
                prog.append(dict(gen.pick(rng, prev)))       # the same zeroing again (same weapon, same distance)
                continue
            if r < 0.4:
                prog.append({"op": "zero", "calc": good, "shot": s, "dist": simgen.gen_range(rng, 25, 500)})
            elif r < 0.6:
                prog.append({"op": "zero", "calc": badc, "shot": s, "dist": simgen.gen_range(rng, 50, 600)})
            elif r < 0.75:
                prog.append({"op": "elev", "calc": gen.pick(rng, [good, badc]), "shot": s, "dist": simgen.gen_range(rng, 25, 500)})
            else:
                prog.append({"op": "fire", "calc": good, "shot": s, "range": simgen.gen_range(rng, 50, 500),
                             "step": [50.0, "Yard"]})
        programs.append(prog)
        roles[str(t)] = "client"
    cfg = simgen.gen_engine_config(rng, tier, ntasks)
    simgen.tame_for_line_mode(programs, cfg)
    if cfg["mode"] == "none":
        cfg["mode"] = "cold"
    frng = rng_for(seed, "faults")
    faults = []
    if frng.random() < 0.75:
        cands = [(ti, i) for ti, p in enumerate(programs) for i, op in enumerate(p) if op["op"] == "zero"]
        frng.shuffle(cands)
        est = {"line": 150000, "cold": 2500, "step": 4000}[cfg["mode"]]
        for ti, i in cands[:frng.randint(1, 3)]:
            at = frng.randint(1, 200) if frng.random() < 0.35 else frng.randint(1, est)
            faults.append({"kind": "interrupt", "task": ti, "op": i, "at": at,
                           "exc": "MemoryError" if frng.random() < 0.25 else "SimInterrupt"})
    return {"seed": seed, "mode2": "history", "world": w, "programs": programs, "roles": roles, "config": cfg,
            "faults": faults}


def gen_spec(seed, tier):
    return gen_sweep(seed, tier) if rng_for(seed, "mode").random() < 0.5 else gen_history(seed, tier)


def _tag(v):
    s = dict(v["sig"])
    s.setdefault("mode", "history")
    v["sig"] = s
    return v


def run_case(seed, tier, idx):
    spec = gen_spec(seed, tier)
    if spec["mode2"] == "sweep":
        res = run_in_fork(_sweep, (spec,), timeout=600)
        st = res["stats"]
        return {"violations": res["violations"], "digest": res["digest"], "mode2": "sweep", "sweep": st,
                "nontrivial": st["cap_errors"] + st["limit_errors"] > 0, "ref_kind": res["ref_kind"],
                "sample": {"seed": seed, "mode": "sweep", "cfg": spec["cfg"], "distance": spec["dist"],
                           "look": spec["world"]["shots"][0]["look"], "reference_outcome": res["ref_kind"],
                           "caps": CAPS, "stats": st}}
    r = rng_for(seed, "sweep").random()
    p_int, n = (0.3, 24) if tier == "thorough" else (0.06, 8)
    if r < p_int:
        rec = sweep_interrupts(spec, None, n, post=lambda s, h, v: [_tag(x) for x in v])
    else:
        hist, viol, stats = run_spec(spec)
        rec = record(spec, hist, [_tag(v) for v in viol], stats)
    rec["mode2"] = "history"
    return rec


def replay_case(rep):
    if "case" in rep:
        res = run_in_fork(_sweep, (rep["case"], rep.get("only")), timeout=600)
        return {"violations": res["violations"], "digest": res["digest"]}
    hist, viol, stats = run_spec(rep["spec"])
    return {"violations": [_tag(v) for v in viol], "digest": hist["digest"]}


def minimise(rep):
    if "case" in rep:
        return rep                      # one configuration of one problem: already minimal in operations
    def runner(spec):
        hist, viol, stats = run_spec(spec, timeout=300)
        return hist, [_tag(v) for v in viol], stats
    return minimise_spec(rep, runner=runner)


def summarise(records):
    sw = [r for r in records if r["mode2"] == "sweep"]
    hi = [r for r in records if r["mode2"] == "history"]
    cov = summarise_sim(hi, "C02 sweep mode: one evaluation = one zeroing call under one iteration cap / limit "
                            "configuration; non-trivial = the abort fired (an error was raised).") if hi else {
        "rule": "sweep only", "fault_kinds_fired": {}}
    tot = {}
    for r in sw:
        for k, v in r["sweep"].items():
            tot[k] = tot.get(k, 0) + v
    calls = tot.get("cap_runs", 0) + tot.get("limit_runs", 0) + tot.get("elev_runs", 0) + len(sw)
    cov["evaluations"] = len(hi) + calls
    distinct = {r["digest"] for r in records if r.get("nontrivial")}
    cov["distinct_nontrivial"] = len(distinct)
    cov["zeroing_problems_swept"] = len(sw)
    cov["simulated_histories"] = len(hi)
    cov["sweep"] = tot
    cov["reference_outcomes"] = {k: sum(1 for r in sw if r["ref_kind"] == k) for k in sorted({r["ref_kind"] for r in sw})}
    fk = dict(cov.get("fault_kinds_fired", {}))
    fk["lib_abort.iteration_cap(error raised)"] = tot.get("cap_errors", 0)
    fk["lib_abort.limit_inside_zero_finder(error raised)"] = tot.get("limit_errors", 0)
    cov["fault_kinds_fired"] = fk
    return cov
