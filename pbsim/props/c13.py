"""C13 - a quantity's magnitude is immutable and comparisons follow magnitude.

History machine over a pool of shared, aliased quantities (all 7 dimensions / 41 units), run by one task or by two
tasks interleaved at line/opcode granularity inside convert / Unit.__call__ / __str__ / __repr__ / __hash__, with an
optional admin task flipping the preferred units (which changes what PreferredUnits.slot(q) converts to).  After
EVERY operation a trivial reference model is evaluated on EVERY quantity of the pool."""
import copy
import math

from pbsim import gen, lib, simgen
from pbsim.forkrun import run_in_fork
from pbsim.names import DIMS, SLOTS, UNIT_DIM
from pbsim.ops import perform as perform_admin, Ctx
from pbsim.sched import BudgetExceeded, LiteralDecider, PrngDecider, Sim, SimInterrupt
from pbsim.simprop import minimise_spec
from pbsim.util import fhex, rng_for, sha
from pbsim.world import Builder, empty_world

ID = "C13"
LEVEL = "exploration"
STUBS = ("the scheduler (baton threads, line/opcode pre-emption inside the unit module), the admin task that flips "
         "preferred units; the reference model of a quantity (dimension, raw bits, per-unit readings and hash captured "
         "at construction) is harness code")
ASSUMPTIONS = [
    "seeded sampling of operation histories and interleavings; a clean batch is evidence, not proof",
    "the model says nothing about WHICH number a conversion yields (that is C06), about which display unit a quantity "
    "ends up in, or about equality across dimensions - the property is silent on those",
    "library calls given absurd magnitudes may raise; the invariants are about the quantity, not the callee",
    "pre-emption at line granularity, opcode granularity inside the touch set when enabled",
]
CMP = ["==", "!=", "<", "<=", ">", ">="]
SLOT_BY_DIM = {}
for _s, (_d, _u) in SLOTS.items():
    SLOT_BY_DIM.setdefault(_d, []).append(_s)

# library entry points a quantity of a given dimension can be passed to (parameter table, DESIGN appendix A)
ANY_DIM_CALLS = ["zero_same_weapon"]          # the argument hardly matters: what the call RETURNS is watched
LIBCALLS = {
    "Distance": ["atmo_altitude", "wind_until", "weapon_sight_height", "weapon_twist", "dm_diameter", "dm_length",
                 "sight_scale", "gstep", "atmo_icao", "vacuum_altitude", "fire_range", "fire_step", "zero_distance",
                 "danger_at", "danger_height", "sight_target_distance", "index_at_distance", "zero_same_weapon",
                 "zero_same_weapon"],
    "Angular": ["shot_look", "shot_cant", "shot_relative", "wind_direction", "weapon_zero", "sight_click",
                "danger_look", "sight_correction"],
    "Velocity": ["ammo_mv", "wind_velocity", "bcpoint_v", "powder_sens_v"],
    "Temperature": ["atmo_temperature", "ammo_powder_temp", "atmo_powder_t", "vel_for_temp", "powder_sens_t"],
    "Pressure": ["atmo_pressure"],
    "Weight": ["dm_weight", "mbc_weight"],
    "Energy": [],
}


def plan(tier):
    return {"runs": 6000} if tier == "quick" else {"runs": 150000, "budget": 900.0}


# ---------------------------------------------------------------------------------------------------------------
def gen_quantity(rng, dim=None):
    dim = dim or gen.pick(rng, sorted(DIMS))
    u = gen.pick(rng, DIMS[dim])
    r = rng.random()
    if dim == "Angular":
        # within one turn
        lim = {"Radian": 6.0, "Degree": 350.0, "MOA": 20000.0, "Mil": 6000.0, "MRad": 6000.0, "Thousandth": 5900.0,
               "InchesPer100Yd": 3000.0, "CmPer100m": 8000.0, "OClock": 11.5}[u]
        v = gen.pick(rng, [0.0, 0, 1.0, -1.0, rng.uniform(-lim, lim), rng.uniform(0, lim), 1e-12, 5e-324, -0.0])
        import random as _random
        r2 = _random.Random(repr(rng.getstate()[1][:6]) + "turn")       # side stream: the other draws of a seed stay as they were
        if u in ("Radian", "Degree", "MOA", "Mil", "MRad", "Thousandth", "OClock") and r2.random() < 0.08:
            # beyond one turn, either sign (whatever the constructor makes of it is the magnitude from then on: the
            # reference is a twin built by the same call)
            v = round(gen.pick(r2, [1.1, 2.3, -1.2, -2.6, 5.0]) * lim * 1.05, 3)
    else:
        v = gen.pick(rng, [0.0, 0, 1, -1.0, 3.0, 36.0, rng.uniform(-1000, 1000), rng.uniform(0, 5000), 1e12, -1e12, 1e-12,
                           5e-324, 2.5e-310, rng.uniform(-1, 1), 100, 459.67, -459.67, 273.15,
                           2 ** 53, 2 ** 53 + 1, 2 ** 53 + 2, -(2 ** 53) - 1, 10 ** 17 + 1])   # ints a float cannot hold
    return [v, u]


def gen_spec(seed, tier):
    rng = rng_for(seed, "program")
    n = rng.randint(8, 20)
    pool = []
    # duplicates-by-magnitude in different units (equal quantities must hash equally)
    twins = [([1.0, "Yard"], [3.0, "Foot"]), ([36.0, "Inch"], [1.0, "Yard"]), ([0.0, "Celsius"], [32.0, "Fahrenheit"]),
             ([1.0, "Pound"], [7000.0, "Grain"]), ([180.0, "Degree"], [6.0, "OClock"]), ([2.0, "Foot"], [24.0, "Inch"]),
             ([0.0, "MPS"], [0.0, "FPS"]), ([1.0, "Mile"], [1760.0, "Yard"]), ([0.0, "Meter"], [0.0, "Inch"]),
             ([2 ** 53, "Inch"], [2 ** 53 + 1, "Inch"]), ([2 ** 53 + 1, "Grain"], [2 ** 53 + 1, "Grain"])]
    for a, b in rng.sample(twins, rng.randint(1, 3)):
        pool += [a, b]
    while len(pool) < n:
        pool.append(gen_quantity(rng))
        if rng.random() < 0.25:
            pool.append(list(pool[-1]))                  # an equal twin in the same unit
    ntasks = 1 if rng.random() < 0.5 else 2
    nops = rng.randint(10, 60)
    programs = [[gen_op(rng, pool) for _ in range(nops if ntasks == 1 else nops // 2 + 1)] for _ in range(ntasks)]
    roles = {str(i): "client" for i in range(ntasks)}
    if rng.random() < 0.35:
        programs.append(simgen.gen_units_flip_program(rng, rng.randint(2, 8)))
        roles[str(len(programs) - 1)] = "admin"
    cfg = {"mode": "line", "policy": gen.pick(rng, ["uniform", "uniform", "pct", "boundary"]),
           "mean_run": gen.pick(rng, [1, 2, 5, 20, 200]), "opcode": rng.random() < 0.5, "pct_depth": rng.randint(1, 3)}
    # crash at an arbitrary instant: an interrupt inside a conversion / comparison / library call given the quantity
    frng = rng_for(seed, "faults")
    faults = []
    if frng.random() < 0.25:
        for _ in range(frng.randint(1, 3)):
            ti = frng.randrange(ntasks)
            faults.append({"kind": "interrupt", "task": ti, "op": frng.randrange(len(programs[ti])),
                           "at": frng.randint(1, 40), "exc": "MemoryError" if frng.random() < 0.25 else "SimInterrupt"})
        seen_ops = set()
        faults = [f for f in faults if (f["task"], f["op"]) not in seen_ops and not seen_ops.add((f["task"], f["op"]))]
    return {"seed": seed, "pool": pool, "programs": programs, "roles": roles, "config": cfg, "faults": faults}


def gen_op(rng, pool):
    i = rng.randrange(len(pool))
    dim = UNIT_DIM[pool[i][1]]
    r = rng.random()
    same = [j for j in range(len(pool)) if UNIT_DIM[pool[j][1]] == dim]
    if r < 0.22:
        return {"op": gen.pick(rng, ["lshift", "convert", "unit_call", "rlshift"]), "q": i, "u": gen.pick(rng, DIMS[dim])}
    if r < 0.30 and SLOT_BY_DIM.get(dim):
        return {"op": "pref_call", "q": i, "slot": gen.pick(rng, SLOT_BY_DIM[dim])}
    if r < 0.45:
        return {"op": gen.pick(rng, ["rshift", "get_in"]), "q": i, "u": gen.pick(rng, DIMS[dim])}
    if r < 0.55:
        return {"op": gen.pick(rng, ["unit_value", "raw_value", "str", "repr", "float", "units"]), "q": i}
    if r < 0.72:
        if rng.random() < 0.7:
            return {"op": "cmp", "q": i, "other": gen.pick(rng, same), "c": gen.pick(rng, CMP)}
        return {"op": "cmp_num", "q": i, "num": gen.pick(rng, [0, 0.0, 1, -1.0, 36.0, 32.0, rng.uniform(-100, 100), 7000,
                                                               2 ** 53, 2 ** 53 + 1]),
                "c": gen.pick(rng, CMP)}
    if r < 0.80:
        return {"op": gen.pick(rng, ["hash", "set_add", "set_check", "dict_put", "dict_get"]), "q": i,
                "other": gen.pick(rng, same)}
    if r < 0.90:
        foreign = gen.pick(rng, [u for u in UNIT_DIM if UNIT_DIM[u] != dim])
        return {"op": gen.pick(rng, ["foreign_rshift", "foreign_get_in", "foreign_lshift_read", "foreign_unit_call"]),
                "q": i, "u": foreign, "back": gen.pick(rng, DIMS[dim])}
    if rng.random() < 0.25:
        return {"op": "libcall", "q": i, "call": gen.pick(rng, ANY_DIM_CALLS)}
    if LIBCALLS[dim]:
        return {"op": "libcall", "q": i, "call": gen.pick(rng, LIBCALLS[dim])}
    return {"op": "str", "q": i}


# ---------------------------------------------------------------------------------------------------------------
# child side

def _watch_returned(W, r):
    """quantities the library RETURNS are quantities too: from now on they are watched like the pool"""
    pb = lib.pb
    if isinstance(r, pb.AbstractDimension) and len(W.extra) < 60 and not any(r is x[0] for x in W.extra):
        d = type(r).__name__
        try:
            W.extra.append([r, d, fhex(float(r.raw_value)),
                            {u: fhex(r.get_in(getattr(pb.Unit, u))) for u in DIMS[d]}, hash(r)])
        except Exception:  # noqa
            pass


def _libcall(name, q, W=None):
    pb = lib.pb
    U = pb.Unit
    dm = lambda **kw: pb.DragModel(0.3, pb.TableG7, **kw)
    ammo = lambda **kw: pb.Ammo(dm(), **({"mv": U.FPS(2700)} | kw))
    wpn = pb.Weapon(U.Inch(2))
    def solver(kind):
        """the computations themselves, on a coarse calculator; only for magnitudes that make a short computation"""
        feet = abs(q.raw_value) / 12.0 if isinstance(q, pb.Distance) else None
        calc = pb.Calculator(_config={"max_calc_step_size_feet": 16.0})
        shot = pb.Shot(wpn, ammo())
        if kind == "fire_range":
            return calc.fire(shot, q, U.Yard(100)) if 30 <= feet <= 3000 else "skipped"
        if kind == "fire_step":
            return calc.fire(shot, U.Yard(200), q) if 10 <= feet <= 600 else "skipped"
        if kind == "zero_distance":
            return calc.barrel_elevation_for_target(shot, q) if 30 <= feet <= 1500 else "skipped"
        if kind == "zero_same_weapon":
            # the SAME weapon zeroed again and again (on one long-lived calculator); what each zeroing returned is kept
            if W is None:
                return "skipped"
            if W.zero_rig is None:
                W.zero_rig = (pb.Calculator(_config={"max_calc_step_size_feet": 16.0}), pb.Shot(pb.Weapon(U.Inch(2)), ammo()))
            dist = q if (feet is not None and 30 <= feet <= 1500) else U.Yard(100 + 50 * (len(W.extra) % 4))
            r = W.zero_rig[0].set_weapon_zero(W.zero_rig[1], dist)
            _watch_returned(W, r)
            return r
        hit = calc.fire(shot, U.Yard(300), U.Yard(30), extra_data=True)
        if kind == "danger_at":
            return hit.danger_space(q, U.Meter(1)) if 0 <= q.raw_value <= 300 * 36 else "skipped"
        if kind == "danger_height":
            return hit.danger_space(U.Yard(150), q)
        if kind == "danger_look":
            return hit.danger_space(U.Yard(150), U.Meter(1), q)
        if kind == "index_at_distance":
            return hit.index_at_distance(q)
        raise KeyError(kind)

    table = {
        "fire_range": lambda: solver("fire_range"), "fire_step": lambda: solver("fire_step"),
        "zero_distance": lambda: solver("zero_distance"), "danger_at": lambda: solver("danger_at"),
        "zero_same_weapon": lambda: solver("zero_same_weapon"),
        "danger_height": lambda: solver("danger_height"), "danger_look": lambda: solver("danger_look"),
        "index_at_distance": lambda: solver("index_at_distance"),
        "sight_target_distance": lambda: pb.Sight("SFP", U.Meter(100), U.Mil(0.1), U.Mil(0.1)).get_adjustment(
            q, U.Mil(1), U.Mil(0.5), 10) if q.raw_value > 0 else "skipped",
        "sight_correction": lambda: pb.Sight("FFP", None, U.Mil(0.1), U.Mil(0.1)).get_adjustment(U.Meter(100), q, q, 10),
        "atmo_altitude": lambda: pb.Atmo(altitude=q),
        "atmo_icao": lambda: pb.Atmo.icao(q),
        "vacuum_altitude": lambda: pb.Vacuum(altitude=q),
        "wind_until": lambda: pb.Wind(U.FPS(5), U.Degree(90), q),
        "weapon_sight_height": lambda: pb.Weapon(sight_height=q),
        "weapon_twist": lambda: pb.Weapon(U.Inch(2), q),
        "dm_diameter": lambda: dm(weight=U.Grain(150), diameter=q),
        "dm_length": lambda: dm(length=q),
        "sight_scale": lambda: pb.Sight("SFP", q, U.Mil(0.1), U.Mil(0.1)),
        "gstep": lambda: (pb.set_global_max_calc_step_size(q), pb.reset_globals()),
        "shot_look": lambda: pb.Shot(wpn, ammo(), look_angle=q),
        "shot_cant": lambda: pb.Shot(wpn, ammo(), cant_angle=q),
        "shot_relative": lambda: pb.Shot(wpn, ammo(), relative_angle=q).barrel_elevation,
        "wind_direction": lambda: pb.Wind(U.FPS(5), q).vector,
        "weapon_zero": lambda: pb.Weapon(U.Inch(2), U.Inch(10), q),
        "sight_click": lambda: pb.Sight("FFP", None, q, q),
        "ammo_mv": lambda: ammo(mv=q),
        "wind_velocity": lambda: pb.Wind(q, U.Degree(90)).vector,
        "bcpoint_v": lambda: pb.BCPoint(0.3, V=q),
        "powder_sens_v": lambda: ammo(powder_temp=U.Celsius(15)).calc_powder_sens(q, U.Celsius(0)),
        "atmo_temperature": lambda: pb.Atmo(temperature=q),
        "ammo_powder_temp": lambda: ammo(powder_temp=q),
        "atmo_powder_t": lambda: pb.Atmo(powder_t=q),
        "vel_for_temp": lambda: ammo(powder_temp=U.Celsius(15), temp_modifier=0.5, use_powder_sensitivity=True)
        .get_velocity_for_temp(q),
        "powder_sens_t": lambda: ammo(powder_temp=U.Celsius(15)).calc_powder_sens(U.FPS(2600), q),
        "atmo_pressure": lambda: pb.Atmo(pressure=q),
        "dm_weight": lambda: dm(weight=q, diameter=U.Inch(0.308)),
        "mbc_weight": lambda: pb.DragModelMultiBC([pb.BCPoint(0.3, Mach=1.0)], pb.TableG7, weight=q, diameter=U.Inch(0.3)),
    }
    return table[name]()


def _cmp(a, c, b):
    return {"==": a == b, "!=": a != b, "<": a < b, "<=": a <= b, ">": a > b, ">=": a >= b}[c]


class _World:
    def __init__(self, spec):
        pb = lib.pb
        self.pb = pb
        self.q = [getattr(pb.Unit, u)(v) for v, u in spec["pool"]]
        self.dim = [UNIT_DIM[u] for v, u in spec["pool"]]
        # The reference is captured from a TWIN of every pool quantity (same constructor call, another object): the pool
        # objects themselves are handed to the tasks UNREAD, as a caller would hand a freshly built quantity to worker
        # threads - an observer that reads each quantity before sharing it would settle any lazily computed state itself
        twins = [getattr(pb.Unit, u)(v) for v, u in spec["pool"]]
        self.raw = [x.raw_value for x in twins]
        self.readings = []
        self.h0 = []
        for x, d in zip(twins, self.dim):
            self.readings.append({u: fhex(x.get_in(getattr(pb.Unit, u))) for u in DIMS[d]})
            self.h0.append(hash(x))
        self.rawhex = [fhex(r) for r in self.raw]
        self.set = set()
        self.set_members = []
        self.dict = {}
        self.dict_members = []
        self.holders = []          # objects built by library calls: they keep references to pool quantities
        self.extra = []            # quantities RETURNED by library calls: [q, dim, raw hex, readings, hash]
        self.zero_rig = None
        self.two_tasks = sum(1 for r in spec["roles"].values() if r == "client") > 1 or \
            any(r == "admin" for r in spec["roles"].values())


def _do(op, W, viol_sink):
    """Perform one quantity operation; checks on the *returned value* (oracle for reads/comparisons)."""
    pb = W.pb
    k = op["op"]
    q = W.q[op["q"]]
    i = op["q"]
    U = pb.Unit
    if k in ("lshift", "convert", "unit_call", "rlshift"):
        u = getattr(U, op["u"])
        r = (q << u) if k == "lshift" else q.convert(u) if k == "convert" else u(q) if k == "unit_call" else q.__rlshift__(u)
        return ("conv", r is q)
    if k == "pref_call":
        r = getattr(pb.PreferredUnits, op["slot"])(q)
        return ("conv", r is q)
    if k in ("rshift", "get_in"):
        u = getattr(U, op["u"])
        r = (q >> u) if k == "rshift" else q.get_in(u)
        if fhex(r) != W.readings[i][op["u"]]:
            viol_sink("read.changed", k, W.dim[i], f"q{i} >> {op['u']} = {r!r} but was {float.fromhex(W.readings[i][op['u']])!r} at construction")
        return ("read", fhex(r))
    if k == "unit_value":
        r = q.unit_value
        if fhex(r) not in W.readings[i].values():
            viol_sink("read.changed", k, W.dim[i], f"q{i}.unit_value = {r!r} is not its reading in any unit of its dimension")
        return ("read", fhex(r))
    if k == "raw_value":
        return ("read", fhex(q.raw_value))
    if k == "float":
        return ("read", fhex(float(q)))
    if k == "units":
        return ("units", q.units.name)
    if k == "str":
        return ("str", str(q))
    if k == "repr":
        return ("str", repr(q))
    if k == "cmp":
        o = W.q[op["other"]]
        r = _cmp(q, op["c"], o)
        exp = _cmp(W.raw[i], op["c"], W.raw[op["other"]])
        if bool(r) != exp:
            viol_sink("compare.not_by_magnitude", k, W.dim[i], f"q{i} {op['c']} q{op['other']} gave {r}, magnitudes "
                                                             f"{W.raw[i]!r} {op['c']} {W.raw[op['other']]!r} is {exp}")
        return ("cmp", bool(r))
    if k == "cmp_num":
        r = _cmp(q, op["c"], op["num"])
        exp = _cmp(W.raw[i], op["c"], op["num"])
        if bool(r) != exp:
            viol_sink("compare.not_by_magnitude", k, W.dim[i], f"q{i} {op['c']} {op['num']!r} gave {r}, expected {exp}")
        return ("cmp", bool(r))
    if k == "hash":
        return ("hash", hash(q) == W.h0[i])
    if k == "set_add":
        W.set.add(q)
        W.set_members.append(i)
        return ("set", len(W.set))
    if k == "set_check":
        return ("set", [W.q[m] in W.set for m in W.set_members])
    if k == "dict_put":
        W.dict[q] = i
        W.dict_members.append(i)
        return ("dict", len(W.dict))
    if k == "dict_get":
        return ("dict", [W.dict.get(W.q[m], "missing") != "missing" for m in W.dict_members])
    if k.startswith("foreign"):
        u = getattr(U, op["u"])
        got = None
        try:
            if k == "foreign_rshift":
                got = q >> u
            elif k == "foreign_get_in":
                got = q.get_in(u)
            elif k == "foreign_unit_call":
                r = u(q)                      # converts the display unit without validation ...
                try:
                    got = r.unit_value        # ... but reading it must raise
                finally:
                    q << getattr(U, op["back"])
            else:
                q << u
                try:
                    got = q.unit_value
                finally:
                    q << getattr(U, op["back"])
        except pb.UnitConversionError:
            return ("foreign", "raised")
        except Exception as e:  # noqa: any other exception is still not a number
            return ("foreign", "raised:" + type(e).__name__)
        if W.two_tasks and k in ("foreign_lshift_read", "foreign_unit_call") and fhex(got) in W.readings[i].values():
            # another task converted the quantity back to a unit of its own dimension between the two steps of this
            # operation: the number read is a reading in its own dimension, not a foreign one (racy by construction)
            return ("foreign", "own-dimension reading after a racing conversion")
        viol_sink("foreign.read_yields_number", k, W.dim[i], f"q{i} ({W.dim[i]}) read in {op['u']} returned {got!r}")
        return ("foreign", "number")
    if k == "libcall":
        try:
            W.holders.append(_libcall(op["call"], q, W))
            if len(W.holders) > 40:
                W.holders.pop(0)
            return ("libcall", "ok")
        except Exception as e:  # noqa: the callee may reject the value
            return ("libcall", type(e).__name__)
    raise ValueError(k)


def _check_all(W, viol_sink, opkind):
    """The reference model on every quantity (called in harness mode after every operation)."""
    pb = W.pb
    for i, q in enumerate(W.q):
        d = W.dim[i]
        if fhex(q.raw_value) != W.rawhex[i]:
            viol_sink("magnitude.changed", opkind, d, f"q{i} raw {q.raw_value!r} != {W.raw[i]!r}")
            W.rawhex[i] = fhex(q.raw_value)           # report once
            continue
        for u, hx in W.readings[i].items():
            try:
                r = q.get_in(getattr(pb.Unit, u))
            except Exception as e:  # noqa
                viol_sink("read.raises", opkind, d, f"q{i}.get_in({u}) raises {type(e).__name__}")
                break
            if fhex(r) != hx:
                viol_sink("read.changed", opkind, d, f"q{i} in {u} reads {r!r}, was {float.fromhex(hx)!r}")
                break
        try:
            hq = hash(q)
        except Exception as e:  # noqa
            viol_sink("hash.raises", opkind, d, f"hash(q{i}) raises {type(e).__name__}")
            continue
        if hq != W.h0[i]:
            viol_sink("hash.changed_with_display_unit", opkind, d,
                      f"hash(q{i}) differs from its value at construction (display unit now {q.units!r})")
            W.h0[i] = hq                               # report once per change
    for k, (q, d, rh, readings, h0) in enumerate(W.extra):
        try:
            if fhex(float(q.raw_value)) != rh:
                viol_sink("magnitude.changed", opkind, d, f"a quantity returned earlier by the library (#{k}, {d}) changed "
                                                          f"its magnitude: {q.raw_value!r}, was {float.fromhex(rh)!r}")
                W.extra[k][2] = fhex(float(q.raw_value))
            elif hash(q) != h0:
                viol_sink("hash.changed_with_display_unit", opkind, d, f"hash of a returned quantity (#{k}) changed")
                W.extra[k][4] = hash(q)
        except Exception as e:  # noqa
            viol_sink("read.raises", opkind, d, f"returned quantity #{k}: {type(e).__name__}")
    # equal quantities hash equally (within a dimension)
    for i in range(len(W.q)):
        for j in range(i + 1, len(W.q)):
            if W.dim[i] == W.dim[j] and W.raw[i] == W.raw[j]:
                try:
                    eq = (W.q[i] == W.q[j])
                    hi, hj = hash(W.q[i]), hash(W.q[j])
                except Exception as e:  # noqa: comparing/hashing two quantities of one dimension must not raise
                    viol_sink("compare.raises", opkind, W.dim[i], f"q{i} == q{j} / hash raises {type(e).__name__}: {e}")
                    continue
                if not eq:
                    viol_sink("compare.not_by_magnitude", opkind, W.dim[i], f"q{i} == q{j} is False for equal magnitudes")
                elif hi != hj:
                    viol_sink("hash.equal_quantities_differ", opkind, W.dim[i],
                              f"q{i} == q{j} but hashes differ (units {W.q[i].units!r}, {W.q[j].units!r})")
    # container membership survives display changes
    for m in W.set_members:
        if W.q[m] not in W.set:
            viol_sink("hash.set_membership_lost", opkind, W.dim[m], f"q{m} was added to a set and is no longer found in it")
            break
    for m in W.dict_members:
        if W.q[m] not in W.dict:
            viol_sink("hash.dict_membership_lost", opkind, W.dim[m], f"q{m} was used as a dict key and is no longer found")
            break


def simulate(spec):
    lib.reset_globals()
    W = _World(spec)
    viol = []
    seen = set()
    cur = {"t": 0, "i": 0}

    def sink(inv, opkind, dim, detail):
        key = (inv, opkind)
        if key in seen:
            return
        seen.add(key)
        viol.append({"sig": {"invariant": inv, "op": opkind}, "detail": f"task {cur['t']} op {cur['i']}: {detail}",
                     "dim": dim})

    ctx = Ctx(Builder(empty_world()))

    def exec_op(t, op):
        cur["t"], cur["i"] = t.idx, t.op_idx
        try:
            if t.role == "admin":
                perform_admin(op, ctx)
                r = ("admin", op["op"])
            else:
                r = _do(op, W, sink)
        except (SimInterrupt, BudgetExceeded):
            t.harness = 1
            raise
        except MemoryError:
            t.harness = 1
            if t.fired is not None:
                raise
            return {"kind": "exc", "digest": "MemoryError"}
        except Exception as e:  # noqa
            t.harness = 1
            return {"kind": "exc", "digest": type(e).__name__}
        t.harness = 1
        return {"kind": "ok", "digest": list(r) if isinstance(r, tuple) else r}

    def on_boundary(sim, t, i, phase):
        if phase == "end":
            cur["t"], cur["i"] = t.idx, i
            _check_all(W, sink, "*")       # state invariants: whichever operation revealed them

    cfg = spec["config"]
    nops = sum(len(p) for p in spec["programs"])
    if spec.get("schedule") is not None:
        dec = LiteralDecider(spec["schedule"])
    else:
        dec = PrngDecider(rng_for(spec["seed"], "schedule"), cfg["policy"], cfg["mean_run"], max(10, nops * 40),
                          len(spec["programs"]), cfg.get("pct_depth", 2))
    sim = Sim(spec["programs"], exec_op, dec, mode=cfg["mode"], opcode=cfg.get("opcode", False),
              faults=spec.get("faults") or [], on_boundary=on_boundary,
              roles={int(k): v for k, v in spec["roles"].items()})
    sim.run()
    results = [t.results for t in sim.tasks]
    triples = sorted({(op["op"], W.dim[op["q"]], op.get("u") or op.get("slot") or op.get("call") or "")
                      for p, r in zip(spec["programs"], spec["roles"].values()) if r == "client" for op in p})
    return {"violations": viol, "results_sha": sha(results), "schedule": sim.schedule, "events": sim.events,
            "faults_fired": sim.fault_fired,
            "switches": sim.switches, "overlap": sorted([[a, b, n] for (a, b), n in sim.overlap.items()]),
            "harness_errors": sim.harness_errors, "digest": sha([[list(x) for x in sim.log], results]),
            "triples": [list(x) for x in triples], "nops": nops,
            "libcalls": sorted({op["call"] for p in spec["programs"] for op in p if op.get("op") == "libcall"})}


def _run(spec):
    hist = run_in_fork(simulate, (spec,), timeout=300)
    return hist, hist["violations"], {}


def run_case(seed, tier, idx):
    spec = gen_spec(seed, tier)
    hist, viol, _ = _run(spec)
    lit = copy.deepcopy(spec)
    lit["schedule"] = hist["schedule"]
    ntasks = sum(1 for r in spec["roles"].values() if r == "client")
    rec = {"violations": [dict(v, replay={"spec": lit, "event_log_sha256": hist["digest"]}) for v in viol],
           "digest": hist["digest"], "nontrivial": hist["nops"] >= 5, "events": hist["events"],
           "switches": hist["switches"], "overlap": hist["overlap"], "triples": hist["triples"], "nops": hist["nops"],
           "libcalls": hist["libcalls"], "ntasks": ntasks, "admin": any(r == "admin" for r in spec["roles"].values()),
           "faults_fired": hist["faults_fired"],
           "opcode": spec["config"]["opcode"],
           "sample": {"seed": seed, "pool": spec["pool"][:6], "program_head": [p[:6] for p in spec["programs"]],
                      "config": spec["config"], "tasks": len(spec["programs"])}}
    if hist["harness_errors"]:
        rec["harness_error"] = "; ".join(hist["harness_errors"])[:2000]
    return rec


def replay_case(rep):
    hist, viol, _ = _run(rep["spec"])
    return {"violations": viol, "digest": hist["digest"]}


def minimise(rep):
    def runner(spec):
        hist = simulate(spec) if False else run_in_fork(simulate, (spec,), timeout=120)
        return hist, hist["violations"], {}
    out = minimise_spec(rep, runner=runner, max_tests=80)
    # drop unused pool entries is not attempted: indices are part of the programs
    return out


def summarise(records):
    triples = set()
    pairs = set()
    libcalls = set()
    tot = {"events": 0, "switches": 0, "nops": 0}
    two = adm = opc = 0
    for r in records:
        triples.update(tuple(x) for x in r["triples"])
        pairs.update((a, b) for a, b, n in r["overlap"])
        libcalls.update(r["libcalls"])
        for k in tot:
            tot[k] += r[k]
        two += r["ntasks"] > 1
        adm += r["admin"]
        opc += r["opcode"]
    return {
        "rule": "one evaluation = one history (10-60 operations on a shared pool of 8-20 quantities, one or two client "
                "tasks, optional units-flipping admin task) with the reference model evaluated on every quantity after "
                "every operation; non-trivial = at least 5 operations; distinct = distinct event-log digests",
        "operations": tot["nops"], "distinct_op_dimension_unit_triples": len(triples),
        "distinct_library_entry_points_a_quantity_was_passed_through": sorted(libcalls),
        "histories_with_two_client_tasks": two, "histories_with_units_flipping_admin": adm,
        "histories_with_opcode_pre_emption": opc,
        "logical_time": {"pre_emption_point_events": tot["events"]},
        "context_switches": tot["switches"], "overlap_pairs_distinct": len(pairs),
        "fault_kinds_fired": dict({"units_flip(admin ops interleaved)": adm},
                                  **{"interrupt." + k: sum(1 for r in records for f in r.get("faults_fired", []) if f["exc"] == k)
                                     for k in ("SimInterrupt", "MemoryError")}),
    }
