"""Seeded generators of world specs (plain data; no library code runs here)."""
import math

from pbsim.names import SHIPPED_TABLES, DIMS

G = 32.17405


def rq(rng, value, unit):
    return [value, unit]


def pick(rng, seq):
    return seq[rng.randrange(len(seq))]


def gen_distance_ft(rng, feet, units=("Foot", "Yard", "Meter", "Inch", "Centimeter", "Kilometer", "Mile")):
    """A distance of `feet` feet written in a random unit."""
    u = pick(rng, list(units))
    f = {"Foot": 1.0, "Yard": 3.0, "Meter": 1 / 0.3048, "Inch": 1 / 12.0, "Centimeter": 1 / 30.48,
         "Kilometer": 1000 / 0.3048, "Mile": 5280.0, "Millimeter": 1 / 304.8}[u]
    return [feet / f, u]


def gen_velocity_fps(rng, fps):
    u = pick(rng, ["FPS", "MPS", "KMH", "MPH"])
    f = {"FPS": 1.0, "MPS": 3.2808399, "KMH": 3.2808399 / 3.6, "MPH": 3.2808399 / 2.23693629}[u]
    return [fps / f, u]


def gen_angle_deg(rng, deg):
    u = pick(rng, ["Degree", "Radian", "MOA", "Mil", "MRad"])
    f = {"Degree": 1.0, "Radian": 180 / math.pi, "MOA": 1 / 60.0, "Mil": 180 / 3200.0, "MRad": 180 / math.pi / 1000}[u]
    return [deg / f, u]


def gen_custom_table(rng):
    """A custom table derived from a shipped one (sub-sampled, CD and Mach rescaled): physically plausible, so
    the solver's piecewise-quadratic interpolant stays positive (random CDs at random Mach numbers do not: the
    parabola through three arbitrary points can go negative, i.e. negative drag, which is no longer a projectile)."""
    return {"kind": "derived", "name": pick(rng, SHIPPED_TABLES), "stride": rng.randint(1, 4),
            "offset": rng.randint(0, 3), "cd_scale": round(rng.uniform(0.6, 1.4), 3),
            "mach_scale": round(rng.uniform(0.9, 1.1), 3)}


def gen_table(rng, custom_p=0.15):
    if rng.random() < custom_p:
        return gen_custom_table(rng)
    return {"kind": "shipped", "name": pick(rng, SHIPPED_TABLES)}


def gen_dm(rng, table_idx, mbc_p=0.2, dims_p=0.6):
    s = {"table": table_idx}
    if rng.random() < dims_p:
        s["weight"] = [round(rng.uniform(40, 750), 1), "Grain"] if rng.random() < 0.7 else \
            [round(rng.uniform(3, 48), 2), "Gram"]
        s["diameter"] = [round(rng.uniform(0.17, 0.51), 3), "Inch"] if rng.random() < 0.7 else \
            [round(rng.uniform(4.5, 12.9), 2), "Millimeter"]
        if rng.random() < 0.8:
            s["length"] = [round(rng.uniform(0.4, 2.2), 3), "Inch"]
    if rng.random() < mbc_p:
        n = rng.randint(1, 5)
        pts = []
        for _ in range(n):
            bc = round(rng.uniform(0.1, 0.8), 3)
            if rng.random() < 0.5:
                pts.append([bc, "Mach", round(rng.uniform(0.3, 3.5), 3)])
            else:
                u = pick(rng, ["FPS", "MPS", "KMH", "MPH", "KT"])
                fps = rng.uniform(400, 3600)
                f = {"FPS": 1.0, "MPS": 3.2808399, "KMH": 3.2808399 / 3.6, "MPH": 3.2808399 / 2.23693629,
                     "KT": 3.2808399 / 1.94384449}[u]
                pts.append([bc, u, round(fps / f, 2)])
        s["mbc"] = pts
    else:
        s["bc"] = round(rng.uniform(0.05, 0.9), 3)
    return s


def gen_atmo(rng, max_alt_ft=12000):
    r = rng.random()
    alt = round(rng.uniform(-1000, max_alt_ft), 1)
    if r < 0.4:
        return {"kind": "icao", "altitude": gen_distance_ft(rng, alt, ("Foot", "Meter", "Yard"))}
    if r < 0.5:
        return {"kind": "vacuum", "altitude": gen_distance_ft(rng, alt, ("Foot", "Meter")),
                "temperature": [round(rng.uniform(-20, 35), 1), "Celsius"]}
    s = {"kind": "explicit", "altitude": gen_distance_ft(rng, alt, ("Foot", "Meter")),
         "pressure": pick(rng, [[round(rng.uniform(20.0, 31.0), 2), "InHg"], [round(rng.uniform(680, 1050), 1), "hPa"],
                                [round(rng.uniform(510, 790), 1), "MmHg"]]),
         "temperature": pick(rng, [[round(rng.uniform(-30, 45), 1), "Celsius"],
                                   [round(rng.uniform(-20, 110), 1), "Fahrenheit"],
                                   [round(rng.uniform(245, 315), 1), "Kelvin"]]),
         "humidity": pick(rng, [0.0, round(rng.uniform(0, 1), 2), round(rng.uniform(1.5, 100), 1)])}
    if rng.random() < 0.3:
        s["powder_t"] = [round(rng.uniform(-20, 45), 1), "Celsius"]
    return s


def gen_wind(rng, max_fps=60.0, until_ft=None):
    s = {"velocity": gen_velocity_fps(rng, round(rng.uniform(0, max_fps), 2)),
         "direction": gen_angle_deg(rng, round(rng.uniform(0, 359), 1))}
    if until_ft is not None:
        s["until"] = gen_distance_ft(rng, until_ft, ("Foot", "Yard", "Meter"))
    if rng.random() < 0.12:
        # the keyword-only custom "no wind beyond" distance, sometimes shorter than the flight
        s["max_distance_feet"] = pick(rng, [150.0, 600.0, 2500.0, 1e6])
    return s


def wind_speed_fps(w):
    v, u = w["velocity"]
    f = {"FPS": 1.0, "MPS": 3.2808399, "KMH": 3.2808399 / 3.6, "MPH": 3.2808399 / 2.23693629,
         "KT": 3.2808399 / 1.94384449}[u]
    return abs(v * f)


def to_feet(q):
    v, u = q
    f = {"Foot": 1.0, "Yard": 3.0, "Meter": 1 / 0.3048, "Inch": 1 / 12.0, "Centimeter": 1 / 30.48,
         "Kilometer": 1000 / 0.3048, "Mile": 5280.0, "Millimeter": 1 / 304.8, "NauticalMile": 72913.3858 / 12,
         "Line": 1 / 120.0}[u]
    return v * f


def to_fps(q):
    v, u = q
    f = {"FPS": 1.0, "MPS": 3.2808399, "KMH": 3.2808399 / 3.6, "MPH": 3.2808399 / 2.23693629,
         "KT": 3.2808399 / 1.94384449}[u]
    return v * f


def to_deg(q):
    v, u = q
    f = {"Degree": 1.0, "Radian": 180 / math.pi, "MOA": 1 / 60.0, "Mil": 180 / 3200.0, "MRad": 180 / math.pi / 1000,
         "Thousandth": 180 / 3000.0}[u]
    return v * f


def random_unit(rng, dim):
    return pick(rng, DIMS[dim])


# ---------------------------------------------------------------------------------------------------------------
# approximate conversion from a reference magnitude to a number in a given unit - used ONLY to choose sensible bare
# numbers for the unit the generator believes is in force (never by an oracle)

def from_ref(unit, x):
    """x is in the dimension's reference unit: feet, fps, degrees, Celsius, inHg, grains, ft-lb"""
    d = {"Foot": 1.0, "Yard": 1 / 3.0, "Meter": 0.3048, "Inch": 12.0, "Centimeter": 30.48, "Kilometer": 0.0003048,
         "Mile": 1 / 5280.0, "Millimeter": 304.8, "NauticalMile": 12 / 72913.3858, "Line": 120.0,
         "FPS": 1.0, "MPS": 1 / 3.2808399, "KMH": 3.6 / 3.2808399, "MPH": 2.23693629 / 3.2808399,
         "KT": 1.94384449 / 3.2808399,
         "Degree": 1.0, "Radian": math.pi / 180, "MOA": 60.0, "Mil": 3200 / 180.0, "MRad": 1000 * math.pi / 180,
         "Thousandth": 3000 / 180.0, "OClock": 1 / 30.0,
         "InHg": 1.0, "MmHg": 25.4, "Bar": 25.4 / 750.061683, "hPa": 25.4 / 750.061683 * 1000, "PSI": 25.4 / 51.714924102396,
         "Grain": 1.0, "Gram": 1 / 15.4323584, "Kilogram": 1 / 15432.3584, "Newton": 1 / 151339.73750336,
         "Pound": 1 / 7000.0, "Ounce": 1 / 437.5, "FootPound": 1.0, "Joule": 1 / 0.737562149277}
    if unit in d:
        return x * d[unit]
    if unit == "InchesPer100Yd":
        return math.tan(math.radians(x)) * 3600
    if unit == "CmPer100m":
        return math.tan(math.radians(x)) * 10000
    if unit == "Celsius":
        return x
    if unit == "Fahrenheit":
        return x * 9 / 5 + 32
    if unit == "Kelvin":
        return x + 273.15
    if unit == "Rankin":
        return (x + 273.15) * 9 / 5
    raise KeyError(unit)


def sig4(x):
    """round to 5 significant digits (bare numbers should look like numbers a person types)"""
    if x == 0:
        return 0.0
    return float(f"{x:.5g}")
